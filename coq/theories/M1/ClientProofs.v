(** Proofs about the client endpoint model (M1/Client.v). *)
From Verif Require Import Base.Prelude M1.Client.

(* ------------------------------------------------------------------ *)
(** * trace functions (traces are newest first) *)

(** requests accepted by the send API since the pump last re-initialised the queue, oldest first *)
Fixpoint acc (t : list ev) : list Z :=
  match t with
  | [] => []
  | EPumpStop :: _ => []
  | ERet r c :: t' => if c =? 0 then acc t' ++ [r] else acc t'
  | _ :: t' => acc t'
  end.

(** requests concluded at the OCPP-J layer in the same period, oldest first *)
Fixpoint conc (t : list ev) : list Z :=
  match t with
  | [] => []
  | EPumpStop :: _ => []
  | EConc r _ _ :: t' => conc t' ++ [r]
  | _ :: t' => conc t'
  end.

(** CALLs handed to the network in the same period, oldest first *)
Fixpoint wrs (t : list ev) : list Z :=
  match t with
  | [] => []
  | EPumpStop :: _ => []
  | EWr r _ :: t' => wrs t' ++ [r]
  | _ :: t' => wrs t'
  end.

(** scanning a trace for "a write while disconnected": [Some p] = fine so far, currently paused = p *)
Fixpoint pscan (t : list ev) : option bool :=
  match t with
  | [] => Some false
  | e :: t' =>
      match pscan t' with
      | None => None
      | Some p =>
          match e with
          | EDrop => Some true
          | EReconn _ => Some false
          | EStart => Some false
          | EWr _ _ => if p then None else Some p
          | _ => Some p
          end
      end
  end.

Definition has_panic (t : list ev) : bool := existsb (fun e => match e with EPanic => true | _ => false end) t.

(* ------------------------------------------------------------------ *)
(** * tactics *)

Ltac des1 :=
  match goal with
  | |- context [if ?c then _ else _] => let E := fresh "E" in destruct c eqn:E
  | |- context [match ?c with _ => _ end] => let E := fresh "E" in destruct c eqn:E
  end.

Ltac crush := repeat (cbn in *; try des1); cbn in *; try congruence; try lia; auto.

(* ------------------------------------------------------------------ *)
(** * S1: invariants of every schedule *)

Definition J1 (s : cl) : Prop := pend s <> 0 -> exists t, q s = pend s :: t.
Definition Jpos (s : cl) : Prop := Forall (fun x => x <> 0) (q s).
Definition J4 (s : cl) : Prop := acc (tr s) = conc (tr s) ++ q s.
Definition Jtimer (s : cl) : Prop := started s = true -> tmo s = TOff -> tok s = true.
Definition Jconn (s : cl) : Prop := conn s = true -> started s = true.
Definition Jscan (s : cl) : Prop := pscan (tr s) = Some (paused s).
Definition Jnp (s : cl) : Prop := has_panic (tr s) = false.

Record Inv1 (s : cl) : Prop := {
  i_j1 : J1 s; i_pos : Jpos s; i_j4 : J4 s; i_tm : Jtimer s; i_conn : Jconn s; i_scan : Jscan s }.

(** labels are well formed when request ids are non-zero *)
(** [DirectComplete] is not an event of the endpoint (the OCPP-J layer calls CompleteRequest for the pending id only);
    it exists to tie the model's [complete] to the code on foreign ids and is excluded from the theorems. *)
Definition wf_lab (l : lab) : Prop := match l with Send r _ => r <> 0 | DirectComplete _ => False | _ => True end.

Lemma inv1_init c t : Inv1 (init c t).
Proof. constructor; [ intros H; cbv in H; congruence | apply Forall_nil | reflexivity | intros H; cbv in H; discriminate | intros H; cbv in H; discriminate | reflexivity ]. Qed.


(* ------------------------------------------------------------------ *)
(** * what each primitive changes *)

(** the fields the S1 invariants read *)
Definition same_core (s s' : cl) : Prop :=
  q s' = q s /\ pend s' = pend s /\ tr s' = tr s /\ started s' = started s /\ tmo s' = tmo s /\ tok s' = tok s /\
  conn s' = conn s /\ paused s' = paused s.

Lemma complete_hit b s r t : q s = r :: t ->
  q (complete b s r) = t /\ pend (complete b s r) = (if pend s =? r then 0 else pend s) /\
  tr (complete b s r) = tr s /\ started (complete b s r) = started s /\ tmo (complete b s r) = tmo s /\
  tok (complete b s r) = tok s /\ conn (complete b s r) = conn s /\ paused (complete b s r) = paused s.
Proof.
  intros H. unfold complete. rewrite H, Z.eqb_refl.
  cbn. repeat split; reflexivity.
Qed.

Lemma conclude_core s r k :
  q (conclude s r k) = q s /\ pend (conclude s r k) = pend s /\ tr (conclude s r k) = EConc r k (now s) :: tr s /\
  started (conclude s r k) = started s /\ tmo (conclude s r k) = tmo s /\ tok (conclude s r k) = tok s /\
  conn (conclude s r k) = conn s /\ paused (conclude s r k) = paused s.
Proof. unfold conclude; cbn; repeat split; reflexivity. Qed.

Lemma stop_drain_core s :
  q (stop_drain s) = q s /\ pend (stop_drain s) = pend s /\ tr (stop_drain s) = tr s /\
  started (stop_drain s) = started s /\ conn (stop_drain s) = conn s /\ paused (stop_drain s) = paused s /\
  (pumpStuck (stop_drain s) = false -> pumpStuck s = false /\ tmo (stop_drain s) = TOff).
Proof.
  unfold stop_drain. destruct (tmo s) eqn:E; [destruct (tok s) eqn:E2|..]; cbn; repeat split; auto; try discriminate.
Qed.

(* --- the G1 group: queue, pending id, accepted / concluded --- *)

Record G1 (s : cl) : Prop := { g_j1 : J1 s; g_pos : Jpos s; g_j4 : J4 s }.

Lemma G1_ext s s' : q s' = q s -> pend s' = pend s -> acc (tr s') = acc (tr s) -> conc (tr s') = conc (tr s) -> G1 s -> G1 s'.
Proof.
  intros Hq Hp Ha Hc [H1 H2 H3]. constructor; unfold J1, Jpos, J4 in *; rewrite ?Hq, ?Hp, ?Ha, ?Hc; assumption.
Qed.

(** completing the head request and reporting its conclusion keeps G1 *)
Lemma G1_complete_conclude b s r k t : G1 s -> q s = r :: t -> G1 (conclude (complete b s r) r k).
Proof.
  intros [H1 H2 H3] Hq.
  destruct (complete_hit b s r t Hq) as (Cq & Cp & Ct & _).
  destruct (conclude_core (complete b s r) r k) as (Dq & Dp & Dt & _).
  unfold J1, Jpos, J4 in *. constructor; unfold J1, Jpos, J4; rewrite ?Dq, ?Dp, ?Dt, ?Cq, ?Cp, ?Ct.
  - intros Hne. destruct (pend s =? r) eqn:E; [congruence|].
    destruct (H1 Hne) as [t' Ht']. rewrite Hq in Ht'. inversion Ht'. apply Z.eqb_neq in E. congruence.
  - rewrite Hq in H2. inversion H2; assumption.
  - cbn. rewrite H3, Hq. rewrite <- app_assoc. reflexivity.
Qed.

Lemma complete_frame b s r :
  tr (complete b s r) = tr s /\ started (complete b s r) = started s /\ tmo (complete b s r) = tmo s /\
  tok (complete b s r) = tok s /\ conn (complete b s r) = conn s /\ paused (complete b s r) = paused s.
Proof.
  unfold complete. destruct (q s) as [|h t]; [repeat split; reflexivity|].
  destruct (h =? r); [|repeat split; reflexivity].
  cbn; repeat split; reflexivity.
Qed.

Lemma dispatch_frame s :
  started (dispatch s) = started s /\ tmo (dispatch s) = tmo s /\ tok (dispatch s) = tok s /\
  conn (dispatch s) = conn s /\ paused (dispatch s) = paused s.
Proof.
  unfold dispatch.
  match goal with |- context [if ?c then _ else _] => destruct c end.
  - cbn. repeat split; reflexivity.
  - match goal with |- context [conclude (complete ?b ?x ?r) ?r ?k] =>
      destruct (conclude_core (complete b x r) r k) as (_ & _ & _ & A1 & A2 & A3 & A4 & A5);
      destruct (complete_frame b x r) as (_ & B1 & B2 & B3 & B4 & B5) end.
    rewrite A1, A2, A3, A4, A5, B1, B2, B3, B4, B5. cbn. repeat split; reflexivity.
Qed.

Lemma G1_dispatch s h t : G1 s -> q s = h :: t -> G1 (dispatch s).
Proof.
  intros G Hq. unfold dispatch. rewrite Hq. cbn [head].
  set (s1 := set_pend s _). set (s2 := emit s1 _).
  assert (Hh : h <> 0). { destruct G as [_ Hp _]. unfold Jpos in Hp. rewrite Hq in Hp. inversion Hp; assumption. }
  assert (G2 : G1 s2).
  { destruct G as [H1 H2 H3]. unfold J1, Jpos, J4 in *. constructor; unfold J1, Jpos, J4; subst s2 s1; cbn.
    - intros Hne. destruct (pend s =? 0) eqn:E; cbn in *.
      + apply Z.eqb_neq in Hh. rewrite Hh in *. cbn in *. exists t. assumption.
      + apply H1. apply Z.eqb_neq. assumption.
    - assumption.
    - assumption. }
  destruct (conn s2 && negb (failw s2)); [exact G2|].
  apply G1_complete_conclude with (t := t); [exact G2|]. subst s2 s1; cbn. exact Hq.
Qed.

Lemma pump_tail_frame s :
  started (pump_tail s) = started s /\ conn (pump_tail s) = conn s /\ paused (pump_tail s) = paused s.
Proof.
  unfold pump_tail.
  destruct (pumpStuck s); [repeat split; reflexivity|].
  destruct (paused s) eqn:Ep; [repeat split; auto|].
  match goal with |- context [if ?c then _ else _] => destruct c end; [|repeat split; auto].
  destruct (dispatch_frame s) as (A1 & A2 & A3 & A4 & A5).
  destruct (pumpStuck (dispatch s)); [repeat split; congruence|].
  set (s2 := set_rdy (dispatch s) false).
  destruct (stop_drain_core s2) as (_ & _ & _ & B1 & B2 & B3 & _).
  destruct (pumpStuck (stop_drain s2)); cbn; rewrite ?B1, ?B2, ?B3; subst s2; cbn; repeat split; congruence.
Qed.

Lemma G1_pump_tail s : G1 s -> G1 (pump_tail s).
Proof.
  intros G. unfold pump_tail.
  destruct (pumpStuck s); [exact G|].
  destruct (paused s); [exact G|].
  destruct (rdy s); cbn [andb]; [|exact G].
  destruct (q s) as [|h t] eqn:Eq; cbn [negb]; [exact G|].
  destruct (pend s =? 0); cbn [andb]; [|exact G].
  pose proof (G1_dispatch s h t G Eq) as Gd.
  destruct (pumpStuck (dispatch s)); [exact Gd|].
  set (s2 := set_rdy (dispatch s) false).
  assert (G2 : G1 s2) by (eapply G1_ext; [| | | |exact Gd]; reflexivity).
  destruct (stop_drain_core s2) as (B1 & B2 & B3 & _).
  assert (G3 : G1 (stop_drain s2)) by (eapply G1_ext; [| | | |exact G2]; congruence).
  destruct (pumpStuck (stop_drain s2)); [exact G3|].
  eapply G1_ext; [| | | |exact G3]; reflexivity.
Qed.

Ltac g1ext G := eapply G1_ext; [| | | |exact G]; cbn; try reflexivity.

Lemma step_G1 l s : wf_lab l -> G1 s -> G1 (step l s).
Proof.
  intros Hw G. destruct l; cbn [step wf_lab] in *.
  - (* Send *)
    set (s1 := set_cbq s _).
    destruct (started s1 && negb (closing s1) && valid && negb (q_is_full s1)).
    + destruct G as [H1 H2 H3]. unfold J1, Jpos, J4 in *. constructor; unfold J1, Jpos, J4; subst s1; cbn.
      * intros Hne. destruct (H1 Hne) as [t Ht]. rewrite Ht. exists (t ++ [r]). reflexivity.
      * apply Forall_app. split; [assumption|]. constructor; [assumption|constructor].
      * rewrite H3. rewrite app_assoc. reflexivity.
    + destruct (started s1 && closing s1 && valid && negb (q_is_full s1)); g1ext G.
  - (* Reply *)
    destruct (negb (r =? 0) && (pend s =? r)) eqn:E; [|exact G].
    apply andb_true_iff in E as [E1 E2]. apply Z.eqb_eq in E2. apply negb_true_iff, Z.eqb_neq in E1.
    destruct G as [H1 H2 H3]. assert (Hne : pend s <> 0) by congruence.
    destruct (H1 Hne) as [t Ht]. rewrite E2 in Ht.
    apply G1_complete_conclude with (t := t); [constructor; assumption|exact Ht].
  - (* Expire *) destruct (tmo s); g1ext G.
  - (* Tick *)
    set (s1 := set_now s _). assert (G1' : G1 s1) by g1ext G.
    destruct (tmo s1); try exact G1'. destruct (deadline <=? now s1); [g1ext G1'|exact G1'].
  - (* Drop *)
    destruct (conn s); [|exact G]. set (s1 := emit _ _). assert (G1' : G1 s1) by g1ext G.
    destruct (started s1); [|exact G1'].
    destruct (stop_drain_core s1) as (B1 & B2 & B3 & _). eapply G1_ext; [| | | |exact G1']; cbv zeta; cbn; rewrite ?B1, ?B2, ?B3; reflexivity.
  - (* Reconn *)
    destruct (negb (conn s) && started s && negb (closing s)); [|exact G].
    match goal with |- context [if ?c then _ else _] => destruct c end; g1ext G.
  - (* NetFail *) g1ext G.
  - (* Stop *) destruct (started s && negb (closing s)); [g1ext G|exact G].
  - (* Start *) destruct (negb (started s)); [g1ext G|exact G].
  - (* DirectComplete *) contradiction.
  - (* PumpStop *)
    destruct (started s && closing s && negb (pumpStuck s)); [|exact G].
    constructor; unfold J1, Jpos, J4; cbn; [congruence|constructor|reflexivity].
  - (* PumpReq *)
    destruct (pump_can_run s && negb (closing s) && (1 <=? reqC s)); [|exact G].
    apply G1_pump_tail. g1ext G.
  - (* PumpReady *)
    destruct (pump_can_run s && (1 <=? readyC s)); [|exact G].
    apply G1_pump_tail. g1ext G.
  - (* PumpTimer *)
    destruct (pump_can_run s && tok s); [|exact G].
    set (s1 := set_timer s (tmo s) false). assert (G1' : G1 s1) by g1ext G.
    assert (G2 : G1 (if negb (pend s1 =? 0)
                     then match q s1 with
                          | [] => set_stuck (emit s1 EPanic) true
                          | h :: _ => conclude (complete true s1 h) h K_TIMEOUT
                          end
                     else s1)).
    { destruct (negb (pend s1 =? 0)) eqn:E; [|exact G1'].
      apply negb_true_iff, Z.eqb_neq in E.
      destruct (q s1) as [|h t] eqn:Eq.
      - destruct G1' as [H1 _ _]. destruct (H1 E) as [t Ht]. congruence.
      - apply G1_complete_conclude with (t := t); assumption. }
    cbv zeta. match type of G2 with G1 ?x => set (s2 := x) in * end.
    destruct (pumpStuck s2); [exact G2|]. apply G1_pump_tail. g1ext G2.
  - (* Deliver *)
    destruct (handlerOn s && negb (stopSig s)); [|exact G].
    destruct (concC s) as [|[r k] rest]; [exact G|].
    destruct (cbq (set_concC s rest)); g1ext G.
  - (* DeliverStop *)
    destruct (handlerOn s && stopSig s); [g1ext G|exact G].
Qed.

(* --- the G2 group: connection flags and "no write while disconnected" --- *)

Definition Jclosing (s : cl) : Prop := closing s = true -> conn s = false.
Record G2 (s : cl) : Prop := { g_conn : Jconn s; g_closing : Jclosing s; g_scan : Jscan s }.

Lemma dispatch_scan s : paused s = false -> Jscan s -> Jscan (dispatch s).
Proof.
  unfold Jscan, dispatch. intros Hp Hs.
  match goal with |- context [if ?c then _ else _] => destruct c end.
  - cbn. rewrite Hs, Hp. reflexivity.
  - match goal with |- context [conclude (complete ?b ?x ?r) ?r ?k] =>
      destruct (conclude_core (complete b x r) r k) as (_ & _ & A1 & _ & _ & _ & _ & A2);
      destruct (complete_frame b x r) as (B1 & _ & _ & _ & _ & B2) end.
    rewrite A1, A2, B1, B2. cbn. rewrite Hs, Hp. reflexivity.
Qed.

Lemma dispatch_closing s : closing (dispatch s) = closing s.
Proof.
  unfold dispatch. match goal with |- context [if ?c then _ else _] => destruct c end; [reflexivity|].
  unfold conclude, complete; cbn. destruct (q s) as [|h t]; cbn; [reflexivity|].
  rewrite Z.eqb_refl. match goal with |- context [if ?c then _ else _] => destruct c end; reflexivity.
Qed.

Lemma stop_drain_closing s : closing (stop_drain s) = closing s.
Proof. unfold stop_drain. destruct (tmo s); [destruct (tok s)|..]; reflexivity. Qed.

Lemma pump_tail_closing s : closing (pump_tail s) = closing s.
Proof.
  unfold pump_tail. destruct (pumpStuck s); [reflexivity|]. destruct (paused s); [reflexivity|].
  match goal with |- context [if ?c then _ else _] => destruct c end; [|reflexivity].
  pose proof (dispatch_closing s) as D.
  destruct (pumpStuck (dispatch s)); [exact D|].
  set (s2 := set_rdy (dispatch s) false).
  pose proof (stop_drain_closing s2) as D2.
  destruct (pumpStuck (stop_drain s2)); cbn; rewrite D2; exact D.
Qed.

Lemma G2_pump_tail s : G2 s -> G2 (pump_tail s).
Proof.
  intros [Hc Hcl Hs].
  destruct (pump_tail_frame s) as (F1 & F2 & F3). pose proof (pump_tail_closing s) as F4.
  constructor; unfold Jconn, Jclosing, Jscan in *; rewrite ?F1, ?F2, ?F3, ?F4; try assumption.
  unfold pump_tail.
  destruct (pumpStuck s); [assumption|]. destruct (paused s) eqn:Ep; [assumption|].
  match goal with |- context [if ?c then _ else _] => destruct c end; [|assumption].
  assert (Hs' : Jscan s) by (unfold Jscan; rewrite Ep; exact Hs).
  pose proof (dispatch_scan s Ep Hs') as D. unfold Jscan in D.
  destruct (dispatch_frame s) as (_ & _ & _ & _ & A5). rewrite A5, Ep in D.
  destruct (pumpStuck (dispatch s)); [exact D|].
  set (s2 := set_rdy (dispatch s) false).
  destruct (stop_drain_core s2) as (_ & _ & B3 & _).
  destruct (pumpStuck (stop_drain s2)); cbn; rewrite B3; exact D.
Qed.

Lemma complete_closing b s r : closing (complete b s r) = closing s.
Proof.
  unfold complete. destruct (q s) as [|h t]; [reflexivity|]. destruct (h =? r); reflexivity.
Qed.

Lemma G2_complete_conclude b s r k : G2 s -> G2 (conclude (complete b s r) r k).
Proof.
  intros [Hc Hcl Hs].
  destruct (conclude_core (complete b s r) r k) as (_ & _ & A1 & A2 & _ & _ & A3 & A4).
  destruct (complete_frame b s r) as (B1 & B2 & _ & _ & B3 & B4).
  constructor; unfold Jconn, Jclosing, Jscan in *.
  - rewrite A2, A3, B2, B3. assumption.
  - unfold conclude; cbn. rewrite complete_closing. destruct (complete_frame b s r) as (_ & _ & _ & _ & C & _). rewrite C. assumption.
  - rewrite A1, A4, B1, B4. cbn. rewrite Hs. reflexivity.
Qed.

Lemma step_G2 l s : G2 s -> G2 (step l s).
Proof.
  intros G. pose proof G as [Hc Hcl Hs]. unfold Jconn, Jclosing, Jscan in *.
  destruct l; cbn [step].
  - (* Send *)
    repeat match goal with |- context [if ?c then _ else _] => destruct c end;
      (constructor; unfold Jconn, Jclosing, Jscan; cbn; [assumption|assumption|rewrite Hs; try reflexivity]).
  - destruct (negb (r =? 0) && (pend s =? r)); [apply G2_complete_conclude|]; exact G.
  - destruct (tmo s); constructor; unfold Jconn, Jclosing, Jscan; cbn; assumption.
  - set (s1 := set_now s _).
    assert (G' : G2 s1) by (constructor; unfold Jconn, Jclosing, Jscan; cbn; assumption).
    destruct (tmo s1); try exact G'. destruct (deadline <=? now s1); [|exact G'].
    constructor; unfold Jconn, Jclosing, Jscan; cbn; assumption.
  - (* Drop *)
    destruct (conn s) eqn:Ec; [|exact G]. cbv zeta.
    change (started (emit (set_conn s false) EDrop)) with (started s). rewrite (Hc eq_refl).
    set (s1 := emit (set_conn s false) EDrop).
    destruct (stop_drain_core s1) as (_ & _ & B3 & B4 & B5 & _).
    constructor; unfold Jconn, Jclosing, Jscan; cbn; rewrite ?B3, ?B4, ?B5; subst s1; cbn.
    + discriminate.
    + reflexivity.
    + rewrite Hs. reflexivity.
  - (* Reconn *)
    destruct (negb (conn s) && started s && negb (closing s)) eqn:E; [|exact G].
    apply andb_true_iff in E as [E E3]. apply andb_true_iff in E as [E1 E2]. apply negb_true_iff in E3.
    match goal with |- context [if ?c then _ else _] => destruct c end;
      (constructor; unfold Jconn, Jclosing, Jscan; cbn; [auto|congruence|rewrite Hs; reflexivity]).
  - constructor; unfold Jconn, Jclosing, Jscan; cbn; assumption.
  - (* Stop *)
    destruct (started s && negb (closing s)) eqn:E; [|exact G].
    constructor; unfold Jconn, Jclosing, Jscan; cbn; [congruence|reflexivity|rewrite Hs; reflexivity].
  - (* Start *)
    destruct (negb (started s)); [|exact G].
    constructor; unfold Jconn, Jclosing, Jscan; cbn; [reflexivity|congruence|rewrite Hs; reflexivity].
  - (* DirectComplete *)
    destruct (complete_frame false s r) as (B1 & B2 & _ & _ & B3 & B4). pose proof (complete_closing false s r) as B5.
    constructor; unfold Jconn, Jclosing, Jscan; rewrite ?B1, ?B2, ?B3, ?B4, ?B5; assumption.
  - (* PumpStop *)
    destruct (started s && closing s && negb (pumpStuck s)) eqn:E; [|exact G].
    apply andb_true_iff in E as [E _]. apply andb_true_iff in E as [_ E].
    constructor; unfold Jconn, Jclosing, Jscan; cbn; [rewrite (Hcl E); congruence|congruence|rewrite Hs; reflexivity].
  - destruct (pump_can_run s && negb (closing s) && (1 <=? reqC s)); [|exact G].
    apply G2_pump_tail. constructor; unfold Jconn, Jclosing, Jscan; cbn; assumption.
  - destruct (pump_can_run s && (1 <=? readyC s)); [|exact G].
    apply G2_pump_tail. constructor; unfold Jconn, Jclosing, Jscan; cbn; assumption.
  - (* PumpTimer *)
    destruct (pump_can_run s && tok s); [|exact G].
    set (s1 := set_timer s (tmo s) false).
    assert (G' : G2 s1) by (constructor; unfold Jconn, Jclosing, Jscan; cbn; assumption).
    assert (G'' : G2 (if negb (pend s1 =? 0)
                     then match q s1 with
                          | [] => set_stuck (emit s1 EPanic) true
                          | h :: _ => conclude (complete true s1 h) h K_TIMEOUT
                          end
                     else s1)).
    { destruct (negb (pend s1 =? 0)); [|exact G'].
      destruct (q s1) as [|h t]; [|apply G2_complete_conclude; exact G'].
      constructor; unfold Jconn, Jclosing, Jscan; cbn; [assumption|assumption|rewrite Hs; reflexivity]. }
    cbv zeta. match type of G'' with G2 ?x => set (s2 := x) in * end.
    destruct (pumpStuck s2); [exact G''|]. apply G2_pump_tail.
    destruct G'' as [X1 X2 X3]. constructor; unfold Jconn, Jclosing, Jscan in *; cbn; assumption.
  - (* Deliver *)
    destruct (handlerOn s && negb (stopSig s)); [|exact G].
    destruct (concC s) as [|[r k] rest]; [exact G|].
    destruct (cbq (set_concC s rest));
      (constructor; unfold Jconn, Jclosing, Jscan; cbn; [assumption|assumption|rewrite Hs; reflexivity]).
  - destruct (handlerOn s && stopSig s); [|exact G].
    constructor; unfold Jconn, Jclosing, Jscan; cbn; assumption.
Qed.

(* ------------------------------------------------------------------ *)
(** * runs *)

Lemma run_app l1 l2 s : run (l1 ++ l2) s = run l2 (run l1 s).
Proof. unfold run. apply fold_left_app. Qed.

Lemma run_G1 ls : forall s, Forall wf_lab ls -> G1 s -> G1 (run ls s).
Proof.
  induction ls as [|l ls IH]; intros s Hw G; [exact G|].
  inversion Hw; subst. cbn. apply IH; [assumption|]. apply step_G1; assumption.
Qed.

Lemma run_G2 ls : forall s, G2 s -> G2 (run ls s).
Proof.
  induction ls as [|l ls IH]; intros s G; [exact G|]. cbn. apply IH. apply step_G2; assumption.
Qed.

Lemma G1_init c t : G1 (init c t).
Proof. constructor; [intros H; cbv in H; congruence|apply Forall_nil|reflexivity]. Qed.

Lemma G2_init c t : G2 (init c t).
Proof. constructor; [intros H; cbv in H; discriminate|intros H; cbv in H; discriminate|reflexivity]. Qed.

(** C01 (OCPP-J layer), every schedule: nothing accepted is lost or concluded twice --
    accepted = concluded ++ still queued, as sequences *)
Theorem nothing_lost_S1 : forall c t ls, Forall wf_lab ls ->
  let s := run ls (init c t) in acc (tr s) = conc (tr s) ++ q s.
Proof. intros c t ls Hw. exact (g_j4 _ (run_G1 ls _ Hw (G1_init c t))). Qed.

(** the outstanding request is always the head of the queue *)
Theorem pending_is_head_S1 : forall c t ls, Forall wf_lab ls ->
  let s := run ls (init c t) in pend s <> 0 -> exists rest, q s = pend s :: rest.
Proof. intros c t ls Hw. exact (g_j1 _ (run_G1 ls _ Hw (G1_init c t))). Qed.

(** C10, every schedule: no CALL is handed to the network between a disconnect and the next reconnect *)
Theorem no_write_while_disconnected_S1 : forall c t ls,
  pscan (tr (run ls (init c t))) <> None.
Proof. intros c t ls. rewrite (g_scan _ (run_G2 ls _ (G2_init c t))). discriminate. Qed.

(** C09, every state: a reply whose id is not the pending one changes nothing at all *)
Theorem foreign_reply_noop : forall s r k, pend s <> r \/ r = 0 -> step (Reply r k) s = s.
Proof.
  intros s r k H. cbn [step]. destruct (r =? 0) eqn:E0; [reflexivity|].
  destruct (pend s =? r) eqn:E; [|reflexivity].
  apply Z.eqb_eq in E. apply Z.eqb_neq in E0. destruct H; congruence.
Qed.

(** ... hence it can be erased from any schedule without changing anything that follows,
    in particular the genuine reply is still accepted afterwards *)
Theorem foreign_reply_erasable : forall l1 l2 s r k,
  (pend (run l1 s) <> r \/ r = 0) -> run (l1 ++ Reply r k :: l2) s = run (l1 ++ l2) s.
Proof.
  intros l1 l2 s r k H. rewrite !run_app. unfold run at 1. cbn [fold_left].
  rewrite foreign_reply_noop by exact H. reflexivity.
Qed.

(** C10, every state: disconnect and reconnect leave the queue untouched *)
Theorem drop_keeps_queue : forall s, q (step Drop s) = q s /\ pend (step Drop s) = pend s.
Proof.
  intros s. cbn [step]. destruct (conn s); [|auto]. cbv zeta.
  set (s1 := emit _ _). destruct (started s1); [|auto].
  destruct (stop_drain_core s1) as (B1 & B2 & _). cbn. rewrite B1, B2. auto.
Qed.

Theorem reconn_keeps_queue : forall s, q (step Reconn s) = q s /\ pend (step Reconn s) = pend s.
Proof.
  intros s. cbn [step]. destruct (negb (conn s) && started s && negb (closing s)); [|auto]. cbv zeta.
  match goal with |- context [if ?c then _ else _] => destruct c end; auto.
Qed.

(* ------------------------------------------------------------------ *)
(** * S0: the single-token, handler-atomic schedule class and its stronger invariant *)

Lemma cl_eq (a b : cl) :
  started a = started b -> closing a = closing b -> pumpStuck a = pumpStuck b -> paused a = paused b ->
  rdy a = rdy b -> q a = q b -> cap a = cap b -> pend a = pend b -> reqC a = reqC b -> readyC a = readyC b ->
  tmo a = tmo b -> tok a = tok b -> now a = now b -> timeout a = timeout b -> conn a = conn b ->
  failw a = failw b -> cbq a = cbq b -> concC a = concC b -> handlerOn a = handlerOn b ->
  stopSig a = stopSig b -> tr a = tr b -> a = b.
Proof. destruct a, b; cbn; intros; subst; reflexivity. Qed.

Ltac rec_eq := apply cl_eq; cbn; reflexivity.

Definition tm_after (s : cl) : bool := match tmo s with TOff => false | _ => tok s end.

Lemma pump_tail_eq s h t :
  pumpStuck s = false -> paused s = false -> rdy s = true -> q s = h :: t -> pend s = 0 -> h <> 0 ->
  readyC s = 0 -> (tmo s = TOff -> tok s = true) ->
  pump_tail s =
    if conn s && negb (failw s) then
      set_timer (set_rdy (emit (set_pend s h) (EWr h (now s))) false) (TShort (now s + timeout s)) (tm_after s)
    else
      set_timer (set_rdy (set_concC (emit (set_readyC (set_pend (set_q (emit (set_pend s h) (EWr h (now s))) t) 0) 1)
                                          (EConc h K_WRITE (now s))) (concC s ++ [(h, K_WRITE)])) false)
                (TShort (now s + timeout s)) (tm_after s).
Proof.
  intros H1 H2 H3 H4 H5 H6 H7 H8.
  unfold pump_tail, dispatch, conclude, complete, stop_drain, tm_after. rewrite H1, H2, H3, H4, H5. cbn.
  apply Z.eqb_neq in H6. rewrite H6. cbn. rewrite H4. cbn.
  destruct (conn s && negb (failw s)) eqn:E; cbn.
  - rewrite H1. cbn. destruct (tmo s) eqn:Et; cbn.
    + rewrite H1. rec_eq.
    + rewrite H1. rec_eq.
    + rewrite H1. rec_eq.
  - rewrite Z.eqb_refl, H7. cbn. rewrite H1. cbn. destruct (tmo s) eqn:Et; cbn.
    + rewrite H1. rec_eq.
    + rewrite H1. rec_eq.
    + rewrite H1. rec_eq.
Qed.

Lemma pump_tail_idle s :
  pumpStuck s = false -> (paused s = true \/ rdy s = false \/ q s = []) -> pump_tail s = s.
Proof.
  intros H1 H. unfold pump_tail. rewrite H1. destruct (paused s); [reflexivity|].
  destruct H as [H|[H|H]]; [discriminate|rewrite H; reflexivity|rewrite H; destruct (rdy s); reflexivity].
Qed.

Definition own (e : ev) : Prop :=
  match e with ECb c r _ => c = r | ENoCb _ _ => False | EPanic => False | _ => True end.

Definition pendl (s : cl) : list Z := if pend s =? 0 then [] else [pend s].

(* ------------------------------------------------------------------ *)
(** * C02 for every schedule (possible since the repair of F16: the pump dispatches only while nothing is outstanding):
      the CALLs handed to the network are exactly the concluded requests followed by the outstanding one. *)

Definition K (s : cl) : Prop := wrs (tr s) = conc (tr s) ++ pendl s.

Lemma K_ext s s' : pend s' = pend s -> wrs (tr s') = wrs (tr s) -> conc (tr s') = conc (tr s) -> K s -> K s'.
Proof. unfold K, pendl. intros -> -> ->. tauto. Qed.

Lemma K_complete_conclude b s r k t : K s -> q s = r :: t -> pend s = r -> r <> 0 -> K (conclude (complete b s r) r k).
Proof.
  intros Hk Hq Hp Hr. unfold K in *.
  destruct (complete_hit b s r t Hq) as (_ & Cp & Ct & _).
  destruct (conclude_core (complete b s r) r k) as (_ & Dp & Dt & _).
  unfold pendl in *. rewrite Dp, Cp, Dt, Ct. rewrite Hp, Z.eqb_refl in *. cbn [wrs conc].
  apply Z.eqb_neq in Hr. rewrite Hr in Hk. rewrite Hk. cbn. rewrite app_nil_r. reflexivity.
Qed.

Lemma K_dispatch s h t : G1 s -> K s -> q s = h :: t -> pend s = 0 -> K (dispatch s).
Proof.
  intros G Hk Hq Hp. unfold dispatch. rewrite Hq. cbn [head].
  assert (Hh : h <> 0). { destruct G as [_ Hpos _]. unfold Jpos in Hpos. rewrite Hq in Hpos. inversion Hpos; assumption. }
  rewrite Hp. cbn [Z.eqb andb]. apply Z.eqb_neq in Hh. rewrite Hh. cbn [negb].
  set (s2 := emit (set_pend s h) (EWr h (now (set_pend s h)))).
  assert (K2 : K s2).
  { unfold K, pendl in *. subst s2. cbn. rewrite Hh. rewrite Hp in Hk. cbn in Hk. rewrite Hk, app_nil_r. reflexivity. }
  destruct (conn s2 && negb (failw s2)); [exact K2|].
  apply (K_complete_conclude true s2 h K_WRITE t K2); [subst s2; cbn; exact Hq|subst s2; cbn; reflexivity|apply Z.eqb_neq; exact Hh].
Qed.

Lemma K_pump_tail s : G1 s -> K s -> K (pump_tail s).
Proof.
  intros G Hk. unfold pump_tail.
  destruct (pumpStuck s); [exact Hk|]. destruct (paused s); [exact Hk|].
  destruct (rdy s); cbn [andb]; [|exact Hk].
  destruct (q s) as [|h t] eqn:Eq; cbn [negb andb]; [exact Hk|].
  destruct (pend s =? 0) eqn:Ep; [|exact Hk]. apply Z.eqb_eq in Ep.
  pose proof (K_dispatch s h t G Hk Eq Ep) as Kd.
  destruct (pumpStuck (dispatch s)); [exact Kd|].
  set (s2 := set_rdy (dispatch s) false).
  assert (K2 : K s2) by (apply (K_ext (dispatch s)); [reflexivity|reflexivity|reflexivity|exact Kd]).
  destruct (stop_drain_core s2) as (_ & B2 & B3 & _).
  assert (K3 : K (stop_drain s2)) by (apply (K_ext s2); [exact B2|rewrite B3; reflexivity|rewrite B3; reflexivity|exact K2]).
  destruct (pumpStuck (stop_drain s2)); [exact K3|].
  apply (K_ext (stop_drain s2)); [reflexivity|reflexivity|reflexivity|exact K3].
Qed.

Lemma step_K l s : wf_lab l -> G1 s -> K s -> K (step l s).
Proof.
  intros Hw G Hk. pose proof G as [J1' Jp J4'].
  destruct l; cbn [step wf_lab] in *; try contradiction.
  - (* Send *)
    set (s1 := set_cbq s _).
    destruct (started s1 && negb (closing s1) && valid && negb (q_is_full s1));
      (apply (K_ext s); [reflexivity|reflexivity|reflexivity|exact Hk]).
  - (* Reply *)
    destruct (negb (r =? 0) && (pend s =? r)) eqn:E; [|exact Hk].
    apply andb_true_iff in E as [E1 E2]. apply Z.eqb_eq in E2. apply negb_true_iff, Z.eqb_neq in E1.
    assert (Hne : pend s <> 0) by congruence. destruct (J1' Hne) as [t Ht]. rewrite E2 in Ht.
    apply (K_complete_conclude false s r k t Hk Ht E2 E1).
  - (* Expire *)
    destruct (tmo s); [exact Hk|..]; (apply (K_ext s); [reflexivity|reflexivity|reflexivity|exact Hk]).
  - (* Tick *)
    set (s1 := set_now s _).
    assert (K1 : K s1) by (apply (K_ext s); [reflexivity|reflexivity|reflexivity|exact Hk]).
    destruct (tmo s1); try exact K1. destruct (deadline <=? now s1); [|exact K1].
    apply (K_ext s1); [reflexivity|reflexivity|reflexivity|exact K1].
  - (* Drop *)
    destruct (conn s); [|exact Hk]. cbv zeta.
    set (s1 := emit (set_conn s false) EDrop).
    assert (K1 : K s1) by (apply (K_ext s); [reflexivity|reflexivity|reflexivity|exact Hk]).
    destruct (started s1); [|exact K1].
    destruct (stop_drain_core s1) as (_ & B2 & B3 & _).
    apply (K_ext s1); [cbn; exact B2|cbn; rewrite B3; reflexivity|cbn; rewrite B3; reflexivity|exact K1].
  - (* Reconn *)
    destruct (negb (conn s) && started s && negb (closing s)); [|exact Hk]. cbv zeta.
    match goal with |- context [if ?c then _ else _] => destruct c end;
      (apply (K_ext s); [reflexivity|reflexivity|reflexivity|exact Hk]).
  - (* NetFail *) apply (K_ext s); [reflexivity|reflexivity|reflexivity|exact Hk].
  - (* Stop *)
    destruct (started s && negb (closing s)); [|exact Hk].
    apply (K_ext s); [reflexivity|reflexivity|reflexivity|exact Hk].
  - (* Start *)
    destruct (negb (started s)); [|exact Hk].
    apply (K_ext s); [reflexivity|reflexivity|reflexivity|exact Hk].
  - (* PumpStop *)
    destruct (started s && closing s && negb (pumpStuck s)); [|exact Hk].
    unfold K, pendl. cbn. reflexivity.
  - (* PumpReq *)
    destruct (pump_can_run s && negb (closing s) && (1 <=? reqC s)); [|exact Hk].
    apply K_pump_tail; [eapply G1_ext; [| | | |exact G]; reflexivity|].
    apply (K_ext s); [reflexivity|reflexivity|reflexivity|exact Hk].
  - (* PumpReady *)
    destruct (pump_can_run s && (1 <=? readyC s)); [|exact Hk].
    apply K_pump_tail; [eapply G1_ext; [| | | |exact G]; reflexivity|].
    apply (K_ext s); [reflexivity|reflexivity|reflexivity|exact Hk].
  - (* PumpTimer *)
    destruct (pump_can_run s && tok s); [|exact Hk]. cbv zeta.
    set (s1 := set_timer s (tmo s) false).
    assert (G1s1 : G1 s1) by (eapply G1_ext; [| | | |exact G]; reflexivity).
    assert (K1 : K s1) by (apply (K_ext s); [reflexivity|reflexivity|reflexivity|exact Hk]).
    destruct (negb (pend s1 =? 0)) eqn:Ep.
    + apply negb_true_iff, Z.eqb_neq in Ep.
      assert (Hq : exists t, q s1 = pend s1 :: t) by (destruct G1s1 as [X _ _]; exact (X Ep)).
      destruct Hq as [t Hq]. rewrite Hq.
      set (s2 := conclude (complete true s1 (pend s1)) (pend s1) K_TIMEOUT).
      assert (K2 : K s2) by (apply (K_complete_conclude true s1 (pend s1) K_TIMEOUT t K1 Hq eq_refl Ep)).
      assert (G2' : G1 s2) by (apply G1_complete_conclude with (t := t); assumption).
      destruct (pumpStuck s2); [exact K2|].
      apply K_pump_tail; [eapply G1_ext; [| | | |exact G2']; reflexivity|].
      apply (K_ext s2); [reflexivity|reflexivity|reflexivity|exact K2].
    + destruct (pumpStuck s1); [exact K1|].
      apply K_pump_tail; [eapply G1_ext; [| | | |exact G1s1]; reflexivity|].
      apply (K_ext s1); [reflexivity|reflexivity|reflexivity|exact K1].
  - (* Deliver *)
    destruct (handlerOn s && negb (stopSig s)); [|exact Hk].
    destruct (concC s) as [|[r k] rest]; [exact Hk|]. cbv zeta.
    destruct (cbq (set_concC s rest)); (apply (K_ext s); [reflexivity|reflexivity|reflexivity|exact Hk]).
  - (* DeliverStop *)
    destruct (handlerOn s && stopSig s); [|exact Hk].
    apply (K_ext s); [reflexivity|reflexivity|reflexivity|exact Hk].
Qed.

Lemma K_init c t : K (init c t).
Proof. reflexivity. Qed.

Lemma run_K ls : forall s, Forall wf_lab ls -> G1 s -> K s -> K (run ls s).
Proof.
  induction ls as [|l ls IH]; intros s Hw G Hk; [exact Hk|].
  inversion Hw; subst. cbn. apply IH; [assumption|apply step_G1; assumption|apply step_K; assumption].
Qed.

(** C02, every schedule: what has been written is what has been concluded followed by the outstanding request -- so at most
    one CALL is outstanding, no CALL is written twice, and (with [nothing_lost_S1]) CALLs are written in the order in
    which they were accepted *)
Theorem written_is_concluded_plus_outstanding_S1 : forall c t ls, Forall wf_lab ls ->
  let s := run ls (init c t) in wrs (tr s) = conc (tr s) ++ pendl s.
Proof. intros c t ls Hw. exact (run_K ls _ Hw (G1_init c t) (K_init c t)). Qed.

Theorem written_prefix_of_accepted_S1 : forall c t ls, Forall wf_lab ls ->
  let s := run ls (init c t) in exists rest, acc (tr s) = wrs (tr s) ++ rest.
Proof.
  intros c t ls Hw s.
  pose proof (written_is_concluded_plus_outstanding_S1 c t ls Hw) as Hk. fold s in Hk.
  pose proof (run_G1 ls _ Hw (G1_init c t)) as [J1' _ J4']. fold s in J1', J4'.
  unfold J4 in J4'. rewrite J4', Hk. unfold pendl. destruct (pend s =? 0) eqn:E.
  - exists (q s). rewrite app_nil_r. reflexivity.
  - apply Z.eqb_neq in E. destruct (J1' E) as [rest Hr]. exists rest. rewrite Hr, <- app_assoc. reflexivity.
Qed.

(** both together, for every schedule *)
Theorem one_outstanding_fifo_S1 : forall c t ls, Forall wf_lab ls ->
  let s := run ls (init c t) in
  wrs (tr s) = conc (tr s) ++ pendl s /\ exists rest, acc (tr s) = wrs (tr s) ++ rest.
Proof.
  intros c t ls Hw s. split; [exact (written_is_concluded_plus_outstanding_S1 c t ls Hw)|exact (written_prefix_of_accepted_S1 c t ls Hw)].
Qed.



Record SI (s : cl) : Prop := {
  si_stopped : started s = false -> pend s = 0 /\ q s = [] /\ closing s = false;
  si_rdy : started s = true -> (1 <= readyC s \/ rdy s = true) -> pend s = 0;
  si_ns : pumpStuck s = false;
  si_timer : started s = true -> tmo s = TOff -> tok s = true;
  si_pos : 0 <= reqC s /\ 0 <= readyC s;
  si_cb : started s = true -> closing s = false -> cbq s = map fst (concC s) ++ q s;
  si_cb0 : started s = false -> stopSig s = false -> cbq s = [] /\ handlerOn s = false;
  si_sig : closing s = true -> stopSig s = true;
  si_sig2 : stopSig s = true -> closing s = true \/ started s = false;
  si_own : Forall own (tr s);
  si_j5 : wrs (tr s) = conc (tr s) ++ pendl s;
  si_cb1 : stopSig s = true -> cbq s = [] }.

Lemma SI_init c t : SI (init c t).
Proof.
  constructor; cbn; intros; try discriminate; auto; try lia.
Qed.

Ltac fin := cbn in *; intros; subst; try tauto; try lia; try congruence; auto.



Ltac own_cons1 := constructor; [exact I|assumption].
Ltac closer Sf :=
  first [ own_cons1
        | (rewrite Sf by assumption; cbn; reflexivity)
        | (match goal with |- context [1 =? 0] => change (1 =? 0) with false; cbn; assumption end)
        | idtac ].

Lemma step_SI_ext1 l s : wf_lab l -> G1 s -> G2 s -> SI s -> ok_at l s = true ->
  match l with Send _ _ | Expire | Tick _ | NetFail _ | Stop | Start | Drop | Reconn => SI (step l s) | _ => True end.
Proof.
  intros Hw [J1' Jp J4'] [Jc Jcl Js] S Hok.
  pose proof S as [Sa Sb Sc Sd Se Sf Sg Sh Si Sj Sk Sl].
  unfold ok_at in Hok. apply andb_true_iff in Hok as [HT Hok]. apply Z.leb_le in HT.
  destruct l; try exact I; cbn [is_ext] in Hok;
    apply andb_true_iff in Hok as [Hok Hcc]; apply andb_true_iff in Hok as [Hcl Hsg];
    apply negb_true_iff in Hcl; apply negb_true_iff in Hsg;
    destruct (concC s) as [|cc0 ccs] eqn:Ecc; try discriminate; clear Hcc; cbn [map fst app] in Sf.
  - (* Send *)
    cbn [step]. cbv zeta.
    change (closing (set_cbq s (cbq s ++ [r]))) with (closing s). rewrite Hcl. cbn [negb andb].
    set (s1 := set_cbq s (cbq s ++ [r])).
    destruct (started s1 && true && valid && negb (q_is_full s1)) eqn:E.
    + assert (Est : started s = true) by (subst s1; cbn in E; destruct (started s); [reflexivity|discriminate]).
      constructor; subst s1; cbn; rewrite ?Ecc; fin; closer Sf.
    + replace (started s1 && false && valid && negb (q_is_full s1)) with false
        by (destruct (started s1); reflexivity).
      constructor; subst s1; cbn; rewrite ?remove_last_app, ?Ecc; fin; closer Sf.
  - (* Expire *)
    cbn [step]. destruct (tmo s) eqn:Et; [exact S|..]; constructor; cbn; rewrite ?Ecc; fin; closer Sf.
  - (* Tick *)
    cbn [step]. set (s1 := set_now s _).
    assert (S1 : SI s1) by (constructor; subst s1; cbn; rewrite ?Ecc; fin; closer Sf).
    destruct (tmo s1) eqn:Et; try exact S1. destruct (deadline <=? now s1); [|exact S1].
    destruct S1 as [Sa' Sb' Sc' Sd' Se' Sf' Sg' Sh' Si' Sj' Sk' Sl']. constructor; cbn; fin.
  - (* Drop *)
    cbn [step]. destruct (conn s) eqn:Ec; [|exact S]. cbv zeta.
    change (started (emit (set_conn s false) EDrop)) with (started s). rewrite (Jc Ec).
    set (s1 := emit (set_conn s false) EDrop).
    assert (Hsd : stop_drain s1 = set_timer s1 TOff (match tmo s with TOff => false | _ => tok s end)).
    { unfold stop_drain. subst s1; cbn. destruct (tmo s) eqn:Et; rec_eq. }
    rewrite Hsd. constructor; subst s1; cbn; rewrite ?Ecc; fin; closer Sf.
  - (* Reconn *)
    cbn [step]. destruct (negb (conn s) && started s && negb (closing s)) eqn:E; [|exact S].
    apply andb_true_iff in E as [E _]. apply andb_true_iff in E as [_ Est]. cbv zeta.
    change (readyC (set_paused (emit (set_conn s true) (EReconn (now s))) false)) with (readyC s).
    destruct (1 <=? readyC s) eqn:Er; [apply Z.leb_le in Er|apply Z.leb_gt in Er];
    (destruct (negb (pend (set_paused (emit (set_conn s true) (EReconn (now s))) false) =? 0)) eqn:Ep;
      cbn in Ep; constructor; cbn; rewrite ?Ecc; fin; closer Sf).
  - (* NetFail *) cbn [step]. constructor; cbn; rewrite ?Ecc; fin; closer Sf.
  - (* Stop *)
    cbn [step]. destruct (started s && negb (closing s)) eqn:E; [|exact S].
    apply andb_true_iff in E as [Est _].
    constructor; cbn; rewrite ?Ecc; fin; closer Sf.
  - (* Start *)
    cbn [step]. destruct (negb (started s)) eqn:E; [|exact S]. apply negb_true_iff in E.
    destruct (Sa E) as (P0 & Q0 & C0). destruct (Sg E Hsg) as (CB0 & HO0).
    constructor; cbn; rewrite ?Ecc; fin; closer Sf.
Qed.

Ltac own_cons := repeat (constructor; [first [exact I | reflexivity]|]); assumption.
Ltac j5 Sk := unfold pendl; cbn; rewrite ?Z.eqb_refl; cbn; rewrite ?app_nil_r; first [exact Sk | rewrite Sk; rewrite ?app_nil_r; reflexivity].
Ltac tidy Sk := try (own_cons; fail); try (j5 Sk; fail).

Lemma complete_eq b s r t : q s = r :: t -> readyC s = 0 ->
  complete b s r = set_readyC (set_pend (set_q s t) (if pend s =? r then 0 else pend s)) (readyC s + 1).
Proof.
  intros H Hb. unfold complete. rewrite H, Z.eqb_refl. cbn. rewrite Hb. cbn. reflexivity.
Qed.

Lemma pendl_0 s : pend s = 0 -> pendl s = [].
Proof. unfold pendl. intros ->. reflexivity. Qed.
Lemma pendl_n s : pend s <> 0 -> pendl s = [pend s].
Proof. unfold pendl. intros H. apply Z.eqb_neq in H. rewrite H. reflexivity. Qed.

Lemma SI_pump_tail s : SI s -> G1 s -> started s = true -> readyC s = 0 -> SI (pump_tail s).
Proof.
  intros S [J1' Jp J4'] Est Hr0.
  pose proof S as [Sa Sb Sc Sd Se Sf Sg Sh Si Sj Sk Sl].
  destruct (paused s) eqn:Ep; [rewrite pump_tail_idle by auto; exact S|].
  destruct (rdy s) eqn:Er; [|rewrite pump_tail_idle by auto; exact S].
  destruct (q s) as [|h t] eqn:Eq; [rewrite pump_tail_idle by auto; exact S|].
  assert (Hp0 : pend s = 0) by (apply Sb; auto).
  assert (Hh : h <> 0) by (unfold Jpos in Jp; rewrite Eq in Jp; inversion Jp; assumption).
  rewrite (pump_tail_eq s h t Sc Ep Er Eq Hp0 Hh Hr0 (Sd Est)).
  rewrite (pendl_0 s Hp0) in Sk. rewrite app_nil_r in Sk.
  destruct (conn s && negb (failw s)).
  - constructor; cbn; rewrite ?Eq; fin.
    + own_cons.
    + unfold pendl; cbn. apply Z.eqb_neq in Hh. rewrite Hh, Sk. reflexivity.
  - constructor; cbn; fin.
    + rewrite map_app. cbn. rewrite <- app_assoc. cbn. apply Sf; auto.
    + constructor; [exact I|own_cons].
    + unfold pendl; cbn. rewrite Sk, app_nil_r. reflexivity.
Qed.

Lemma T_facts s : SI s -> T s <= 1 ->
  (1 <= reqC s -> reqC s = 1 /\ readyC s = 0 /\ tok s = false) /\
  (1 <= readyC s -> readyC s = 1 /\ reqC s = 0 /\ tok s = false) /\
  (tok s = true -> reqC s = 0 /\ readyC s = 0).
Proof.
  intros S HT. destruct (si_pos _ S) as [P1 P2]. unfold T, tokz in HT.
  destruct (tok s); repeat split; intros; try lia; try congruence.
Qed.

Lemma step_SI_int l s : wf_lab l -> G1 s -> G2 s -> SI s -> ok_at l s = true ->
  match l with Send _ _ | Expire | Tick _ | NetFail _ | Stop | Start | Drop | Reconn => True | _ => SI (step l s) end.
Proof.
  intros Hw G1s [Jc Jcl Js] S Hok. pose proof G1s as [J1' Jp J4'].
  assert (HDC : forall r, l = DirectComplete r -> False) by (intros r ->; exact Hw).
  pose proof S as [Sa Sb Sc Sd Se Sf Sg Sh Si Sj Sk Sl].
  unfold ok_at in Hok. apply andb_true_iff in Hok as [HT Hok]. apply Z.leb_le in HT.
  destruct (T_facts s S HT) as (TF1 & TF2 & TF3).
  destruct l; try exact I; try (exfalso; eapply HDC; reflexivity); cbn [is_ext] in Hok.
  - (* Reply *)
    apply andb_true_iff in Hok as [Hok Hcc]; apply andb_true_iff in Hok as [Hcl Hsg];
    apply negb_true_iff in Hcl; apply negb_true_iff in Hsg;
    destruct (concC s) as [|cc0 ccs] eqn:Ecc; try discriminate; clear Hcc; cbn [map fst app] in Sf.
    cbn [step]. destruct (negb (r =? 0) && (pend s =? r)) eqn:E; [|exact S].
    apply andb_true_iff in E as [E1 E2]. apply Z.eqb_eq in E2. apply negb_true_iff, Z.eqb_neq in E1.
    assert (Hne : pend s <> 0) by congruence. destruct (J1' Hne) as [t Ht]. rewrite E2 in Ht.
    assert (Est : started s = true).
    { destruct (started s) eqn:X; [reflexivity|]. destruct (Sa eq_refl) as (P0 & _). congruence. }
    assert (Hr0 : readyC s = 0).
    { destruct Se as [_ P2]. destruct (Z.eq_dec (readyC s) 0) as [Z0|NZ]; [exact Z0|].
      exfalso. apply Hne. apply Sb; [exact Est|left; lia]. }
    rewrite (complete_eq false s r t Ht Hr0). unfold conclude.
    rewrite (pendl_n s Hne) in Sk.
    constructor; cbn; rewrite ?Ecc, ?E2, ?Z.eqb_refl; fin; tidy Sk.
    rewrite Sf, Ht; auto.
  - (* PumpStop *)
    cbn [step]. destruct (started s && closing s && negb (pumpStuck s)) eqn:E; [|exact S].
    apply andb_true_iff in E as [E _]. apply andb_true_iff in E as [Est Ecl].
    constructor; cbn; fin; tidy Sk.
    rewrite (Sh Ecl) in *. discriminate.
  - (* PumpReq *)
    cbn [step]. destruct (pump_can_run s && negb (closing s) && (1 <=? reqC s)) eqn:E; [|exact S].
    apply andb_true_iff in E as [E E3]. apply andb_true_iff in E as [E1 E2].
    unfold pump_can_run in E1. apply andb_true_iff in E1 as [Est _]. apply Z.leb_le in E3.
    destruct (TF1 E3) as (R1 & R2 & R3).
    apply SI_pump_tail; cbn; auto.
    + constructor; cbn; fin.
    + destruct G1s. constructor; assumption.
  - (* PumpReady *)
    cbn [step]. destruct (pump_can_run s && (1 <=? readyC s)) eqn:E; [|exact S].
    apply andb_true_iff in E as [E1 E3].
    unfold pump_can_run in E1. apply andb_true_iff in E1 as [Est _]. apply Z.leb_le in E3.
    destruct (TF2 E3) as (R1 & R2 & R3).
    apply SI_pump_tail; cbn; auto; [|destruct G1s; constructor; assumption|lia].
    assert (Hp0 : pend s = 0) by (apply Sb; auto).
    constructor; cbn; fin.
  - (* PumpTimer *)
    cbn [step]. destruct (pump_can_run s && tok s) eqn:E; [|exact S].
    apply andb_true_iff in E as [E1 E3].
    unfold pump_can_run in E1. apply andb_true_iff in E1 as [Est _].
    destruct (TF3 E3) as (R1 & R2). cbv zeta.
    change (pend (set_timer s (tmo s) false)) with (pend s).
    change (q (set_timer s (tmo s) false)) with (q s).
    destruct (negb (pend s =? 0)) eqn:Ep.
    + apply negb_true_iff, Z.eqb_neq in Ep. destruct (J1' Ep) as [t Ht]. rewrite Ht.
      rewrite (complete_eq true (set_timer s (tmo s) false) (pend s) t Ht) by exact R2.
      unfold conclude. cbn. rewrite Sc, Z.eqb_refl.
      rewrite pump_tail_idle; cbn; auto.
      2:{ right; left. destruct (rdy s) eqn:X; [|reflexivity]. exfalso. apply Ep. apply Sb; auto. }
      rewrite (pendl_n s Ep) in Sk.
      constructor; cbn; fin; tidy Sk.
      rewrite map_app. cbn. rewrite <- app_assoc. cbn. rewrite <- Ht. apply Sf; auto.
    + cbn. rewrite Sc. apply SI_pump_tail; cbn; auto; [|destruct G1s; constructor; assumption].
      constructor; cbn; fin.
  - (* Deliver *)
    cbn [step]. destruct (handlerOn s && negb (stopSig s)) eqn:E; [|exact S].
    apply andb_true_iff in E as [E1 E2]. apply negb_true_iff in E2.
    destruct (concC s) as [|[r k] rest] eqn:Ecc; [exact S|].
    assert (Est : started s = true).
    { destruct (started s) eqn:X; [reflexivity|]. destruct (Sg eq_refl E2) as (_ & P0). congruence. }
    assert (Ecl : closing s = false).
    { destruct (closing s) eqn:X; [|reflexivity]. rewrite (Sh eq_refl) in E2. discriminate. }
    pose proof (Sf Est Ecl) as Hcb. cbn in Hcb. cbn. rewrite Hcb.
    constructor; cbn; fin; tidy Sk.
  - (* DeliverStop *)
    cbn [step]. destruct (handlerOn s && stopSig s) eqn:E; [|exact S].
    apply andb_true_iff in E as [E1 E2]. apply negb_true_iff in Hok.
    destruct (Si E2) as [X|Est]; [congruence|].
    constructor; cbn; fin.
Qed.

Lemma step_SI l s : wf_lab l -> G1 s -> G2 s -> SI s -> ok_at l s = true -> SI (step l s).
Proof.
  intros Hw G1s G2s S Hok.
  pose proof (step_SI_ext1 l s Hw G1s G2s S Hok) as A.
  pose proof (step_SI_int l s Hw G1s G2s S Hok) as B.
  destruct l; assumption.
Qed.

Lemma run_SI ls : forall s, Forall wf_lab ls -> G1 s -> G2 s -> SI s -> run_ok ls s = true -> SI (run ls s).
Proof.
  induction ls as [|l ls IH]; intros s Hw G1s G2s S Hok; [exact S|].
  inversion Hw as [|? ? Hw1 Hw2]; subst. cbn in Hok. apply andb_true_iff in Hok as [Ho1 Ho2]. cbn.
  apply IH; auto using step_G1, step_G2, step_SI.
Qed.

(** * S0 theorems *)

Theorem S0_invariant : forall c t ls, Forall wf_lab ls -> run_ok ls (init c t) = true ->
  SI (run ls (init c t)).
Proof. intros. apply run_SI; auto using G1_init, G2_init, SI_init. Qed.

(** C01: every callback receives the conclusion of the very request it was registered for;
    no conclusion is left without a callback; nothing panics *)
Theorem own_caller_S0 : forall c t ls, Forall wf_lab ls -> run_ok ls (init c t) = true ->
  Forall own (tr (run ls (init c t))).
Proof. intros. apply si_own. apply S0_invariant; assumption. Qed.

(** C02: CALLs written = CALLs concluded ++ the outstanding one (at most one outstanding), and
    the written sequence is a prefix of the accepted sequence (acceptance order, each at most once) *)
Theorem one_outstanding_fifo_S0 : forall c t ls, Forall wf_lab ls -> run_ok ls (init c t) = true ->
  let s := run ls (init c t) in
  wrs (tr s) = conc (tr s) ++ pendl s /\ exists rest, acc (tr s) = wrs (tr s) ++ rest.
Proof.
  intros c t ls Hw Hok s. pose proof (S0_invariant c t ls Hw Hok) as S.
  pose proof (run_G1 ls _ Hw (G1_init c t)) as [J1' _ J4']. fold s in S, J1', J4'.
  split; [apply (si_j5 _ S)|]. rewrite (si_j5 _ S). unfold J4 in J4'. rewrite J4'.
  unfold pendl. destruct (pend s =? 0) eqn:E.
  - exists (q s). rewrite app_nil_r. reflexivity.
  - apply Z.eqb_neq in E. destruct (J1' E) as [rest Hr]. exists rest. rewrite Hr, <- app_assoc. reflexivity.
Qed.

(** C07 (class S0): the pump never blocks for good *)
Theorem pump_never_stuck_S0 : forall c t ls, Forall wf_lab ls -> run_ok ls (init c t) = true ->
  pumpStuck (run ls (init c t)) = false.
Proof. intros. apply si_ns. apply S0_invariant; assumption. Qed.

(** C16: after Stop has run to its end the endpoint holds no request, no pending id and no callback *)
Theorem stopped_is_clean_S0 : forall c t ls, Forall wf_lab ls -> run_ok ls (init c t) = true ->
  let s := run ls (init c t) in
  started s = false -> stopSig s = false -> pend s = 0 /\ q s = [] /\ cbq s = [] /\ closing s = false.
Proof.
  intros c t ls Hw Hok s H1 H2. pose proof (S0_invariant c t ls Hw Hok) as S. fold s in S.
  destruct (si_stopped _ S H1) as (A & B & C). destruct (si_cb0 _ S H1 H2) as (D & _). auto.
Qed.

(** C16, restart: Start on a cleanly stopped endpoint produces the state Start produces on a new endpoint of the same
    capacity and timeout, up to what the environment owns (the history so far, the clock, whether the network accepts
    writes).  Start itself discards a ready token and conclusions the previous Stop overtook (the repaired defects F31 /
    F32), so nothing else has to be assumed about the stopped state than what [stopped_is_clean_S0] establishes. *)
Definition same_modulo_env (a b : cl) : Prop :=
  started a = started b /\ closing a = closing b /\ pumpStuck a = pumpStuck b /\ paused a = paused b /\
  rdy a = rdy b /\ q a = q b /\ cap a = cap b /\ pend a = pend b /\ reqC a = reqC b /\ readyC a = readyC b /\
  tmo a = tmo b /\ tok a = tok b /\ timeout a = timeout b /\ conn a = conn b /\
  cbq a = cbq b /\ concC a = concC b /\ handlerOn a = handlerOn b /\ stopSig a = stopSig b.

Lemma restart_state_fresh s :
  started s = false -> pend s = 0 -> q s = [] -> cbq s = [] -> closing s = false ->
  same_modulo_env (step Start s) (step Start (init (cap s) (timeout s))).
Proof.
  intros H1 H2 H3 H4 H5. destruct s; cbn in *; subst. cbn. repeat split.
Qed.

Theorem restart_fresh_S0 : forall c t ls, Forall wf_lab ls -> run_ok ls (init c t) = true ->
  let s := run ls (init c t) in
  started s = false -> stopSig s = false ->
  same_modulo_env (step Start s) (step Start (init (cap s) (timeout s))).
Proof.
  intros c t ls Hw Hok s H1 H2.
  destruct (stopped_is_clean_S0 c t ls Hw Hok H1 H2) as (A & B & C & D).
  apply restart_state_fresh; assumption.
Qed.

(* ------------------------------------------------------------------ *)
(** * non-vacuity: a concrete non-trivial history is in class S0 and exercises every clause *)

Definition demo_labs : list lab :=
  [Start; Send 1 true; Send 2 true; Send 3 false; Reply 7 0; Reply 1 0; Drop; Send 4 true; Expire; Reconn;
   NetFail true; Reply 4 1; NetFail false; Send 5 true; Reply 5 0; Stop; Start; Send 6 true; Reply 6 0].

Example demo_in_S0 :
  Forall wf_lab (expand demo_labs (init 2 0)) /\
  run_ok (expand demo_labs (init 2 0)) (init 2 0) = true /\
  run (expand demo_labs (init 2 0)) (init 2 0) = qrun demo_labs (init 2 0) /\
  conc (tr (qrun [Start; Send 1 true; Send 2 true; Reply 1 0; Expire] (init 2 0))) = [1; 2].
Proof.
  split; [|split; [|split]].
  - vm_compute. repeat constructor; discriminate.
  - vm_compute. reflexivity.
  - vm_compute. reflexivity.
  - vm_compute. reflexivity.
Qed.

(** The schedule on which C02 was false of the model of the unrepaired code -- a reconnection (nothing outstanding)
    racing a send wrote the same CALL twice, finding F16 -- now writes it once: the pump dispatches only while
    nothing is outstanding. *)
Example F16_schedule_writes_once :
  wrs (tr (run [Start; Reconn; Drop; Reconn; Send 7 true; PumpReq; PumpReady] (init 0 0))) = [7].
Proof. vm_compute. reflexivity. Qed.

(* ------------------------------------------------------------------ *)
(** * timer bookkeeping (C08) *)

(** a dispatch re-arms the timer for the full timeout from now, and an expiry that was waiting unread
    in the timer channel does not survive the re-arm (it could only belong to an earlier request) *)
Lemma dispatch_rearms_timer s h t :
  pumpStuck s = false -> paused s = false -> rdy s = true -> q s = h :: t -> pend s = 0 -> h <> 0 ->
  readyC s = 0 -> (tmo s = TOff -> tok s = true) ->
  tmo (pump_tail s) = TShort (now s + timeout s) /\ (tmo s = TOff -> tok (pump_tail s) = false).
Proof.
  intros H1 H2 H3 H4 H5 H6 H7 H8. rewrite (pump_tail_eq s h t H1 H2 H3 H4 H5 H6 H7 H8).
  destruct (conn s && negb (failw s)); cbn; (split; [reflexivity|]); intros E; unfold tm_after; rewrite E; reflexivity.
Qed.

(** the clock: an expiry is produced only when the armed deadline has been reached *)
Lemma tick_never_early s dt :
  tok (step (Tick dt) s) = true -> tok s = true \/ exists d, tmo s = TShort d /\ d <= now s + Z.max 0 dt.
Proof.
  cbn [step]. cbv zeta. change (tmo (set_now s (now s + Z.max 0 dt))) with (tmo s).
  destruct (tmo s) as [| |d] eqn:E; cbn; auto.
  destruct (d <=? now s + Z.max 0 dt) eqn:E2; cbn; auto.
  intros _. right. exists d. split; [reflexivity|apply Z.leb_le; exact E2].
Qed.

(** reconnection: the outstanding request gets a fresh full timeout; with nothing outstanding the pump is woken *)
Lemma reconnect_rearms s :
  conn s = false -> started s = true -> closing s = false ->
  (pend s <> 0 -> tmo (step Reconn s) = TShort (now s + timeout s)) /\
  (pend s = 0 -> 0 <= readyC s -> 1 <= readyC (step Reconn s)).
Proof.
  intros H1 H2 H3. cbn [step]. rewrite H1, H2, H3. cbn.
  split; [intros H|intros H Hp].
  - apply Z.eqb_neq in H. rewrite H. reflexivity.
  - rewrite H. cbn. destruct (1 <=? readyC s) eqn:E; [apply Z.leb_le in E; exact E|lia].
Qed.

(** disconnection parks the timer: no request times out while the client is offline (until the idle tick) *)
(** since the repair F34 this needs no assumption on the timer: Pause never waits for an expiry that the pump has taken *)
Lemma drop_parks_timer s : conn s = true -> started s = true ->
  tmo (step Drop s) = TLong /\ tok (step Drop s) = (match tmo s with TOff => false | _ => tok s end) /\ pumpStuck (step Drop s) = pumpStuck s.
Proof.
  intros H1 H2. cbn [step]. rewrite H1. cbv zeta.
  change (started (emit (set_conn s false) EDrop)) with (started s). rewrite H2.
  unfold stop_drain. cbn. destruct (tmo s) eqn:E; cbn; auto.
Qed.
