(** Proofs about the client endpoint model (M1/Client.v). *)
From Verif Require Import Base.Prelude M1.Client.

(* ------------------------------------------------------------------ *)
(** * trace functions (traces are newest first) *)

(** requests accepted by the send API since the pump last re-initialised the queue, oldest first *)
Fixpoint acc (t : list ev) : list Z :=
  match t with
  | [] => []
  | EPumpStop :: _ => []
  | ERet r c :: t' => if c =? 0 then acc t' ++ [r] else acc t'
  | _ :: t' => acc t'
  end.

(** requests concluded at the OCPP-J layer in the same period, oldest first *)
Fixpoint conc (t : list ev) : list Z :=
  match t with
  | [] => []
  | EPumpStop :: _ => []
  | EConc r _ _ :: t' => conc t' ++ [r]
  | _ :: t' => conc t'
  end.

(** CALLs handed to the network in the same period, oldest first *)
Fixpoint wrs (t : list ev) : list Z :=
  match t with
  | [] => []
  | EPumpStop :: _ => []
  | EWr r _ :: t' => wrs t' ++ [r]
  | _ :: t' => wrs t'
  end.

(** scanning a trace for "a write while disconnected": [Some p] = fine so far, currently paused = p *)
Fixpoint pscan (t : list ev) : option bool :=
  match t with
  | [] => Some false
  | e :: t' =>
      match pscan t' with
      | None => None
      | Some p =>
          match e with
          | EDrop => Some true
          | EReconn _ => Some false
          | EStart => Some false
          | EWr _ _ => if p then None else Some p
          | _ => Some p
          end
      end
  end.

Definition has_panic (t : list ev) : bool := existsb (fun e => match e with EPanic => true | _ => false end) t.

(* ------------------------------------------------------------------ *)
(** * tactics *)

Ltac des1 :=
  match goal with
  | |- context [if ?c then _ else _] => let E := fresh "E" in destruct c eqn:E
  | |- context [match ?c with _ => _ end] => let E := fresh "E" in destruct c eqn:E
  end.

Ltac crush := repeat (cbn in *; try des1); cbn in *; try congruence; try lia; auto.

(* ------------------------------------------------------------------ *)
(** * S1: invariants of every schedule *)

Definition J1 (s : cl) : Prop := pend s <> 0 -> exists t, q s = pend s :: t.
Definition Jpos (s : cl) : Prop := Forall (fun x => x <> 0) (q s).
Definition J4 (s : cl) : Prop := acc (tr s) = conc (tr s) ++ q s.
Definition Jtimer (s : cl) : Prop := started s = true -> tmo s = TOff -> tok s = true.
Definition Jconn (s : cl) : Prop := conn s = true -> started s = true.
Definition Jscan (s : cl) : Prop := pscan (tr s) = Some (paused s).
Definition Jnp (s : cl) : Prop := has_panic (tr s) = false.

Record Inv1 (s : cl) : Prop := {
  i_j1 : J1 s; i_pos : Jpos s; i_j4 : J4 s; i_tm : Jtimer s; i_conn : Jconn s; i_scan : Jscan s }.

(** labels are well formed when request ids are non-zero *)
Definition wf_lab (l : lab) : Prop := match l with Send r _ => r <> 0 | _ => True end.

Lemma inv1_init c t : Inv1 (init c t).
Proof. constructor; [ intros H; cbv in H; congruence | apply Forall_nil | reflexivity | intros H; cbv in H; discriminate | intros H; cbv in H; discriminate | reflexivity ]. Qed.


(* ------------------------------------------------------------------ *)
(** * what each primitive changes *)

(** the fields the S1 invariants read *)
Definition same_core (s s' : cl) : Prop :=
  q s' = q s /\ pend s' = pend s /\ tr s' = tr s /\ started s' = started s /\ tmo s' = tmo s /\ tok s' = tok s /\
  conn s' = conn s /\ paused s' = paused s.

Lemma complete_hit b s r t : q s = r :: t ->
  q (complete b s r) = t /\ pend (complete b s r) = (if pend s =? r then 0 else pend s) /\
  tr (complete b s r) = tr s /\ started (complete b s r) = started s /\ tmo (complete b s r) = tmo s /\
  tok (complete b s r) = tok s /\ conn (complete b s r) = conn s /\ paused (complete b s r) = paused s.
Proof.
  intros H. unfold complete. rewrite H, Z.eqb_refl.
  destruct (b && (1 <=? readyC _)); cbn; repeat split; reflexivity.
Qed.

Lemma conclude_core s r k :
  q (conclude s r k) = q s /\ pend (conclude s r k) = pend s /\ tr (conclude s r k) = EConc r k (now s) :: tr s /\
  started (conclude s r k) = started s /\ tmo (conclude s r k) = tmo s /\ tok (conclude s r k) = tok s /\
  conn (conclude s r k) = conn s /\ paused (conclude s r k) = paused s.
Proof. unfold conclude; cbn; repeat split; reflexivity. Qed.

Lemma stop_drain_core s :
  q (stop_drain s) = q s /\ pend (stop_drain s) = pend s /\ tr (stop_drain s) = tr s /\
  started (stop_drain s) = started s /\ conn (stop_drain s) = conn s /\ paused (stop_drain s) = paused s /\
  (pumpStuck (stop_drain s) = false -> pumpStuck s = false /\ tmo (stop_drain s) = TOff).
Proof.
  unfold stop_drain. destruct (tmo s) eqn:E; [destruct (tok s) eqn:E2|..]; cbn; repeat split; auto; try discriminate.
Qed.

(* --- the G1 group: queue, pending id, accepted / concluded --- *)

Record G1 (s : cl) : Prop := { g_j1 : J1 s; g_pos : Jpos s; g_j4 : J4 s }.

Lemma G1_ext s s' : q s' = q s -> pend s' = pend s -> acc (tr s') = acc (tr s) -> conc (tr s') = conc (tr s) -> G1 s -> G1 s'.
Proof.
  intros Hq Hp Ha Hc [H1 H2 H3]. constructor; unfold J1, Jpos, J4 in *; rewrite ?Hq, ?Hp, ?Ha, ?Hc; assumption.
Qed.

(** completing the head request and reporting its conclusion keeps G1 *)
Lemma G1_complete_conclude b s r k t : G1 s -> q s = r :: t -> G1 (conclude (complete b s r) r k).
Proof.
  intros [H1 H2 H3] Hq.
  destruct (complete_hit b s r t Hq) as (Cq & Cp & Ct & _).
  destruct (conclude_core (complete b s r) r k) as (Dq & Dp & Dt & _).
  unfold J1, Jpos, J4 in *. constructor; unfold J1, Jpos, J4; rewrite ?Dq, ?Dp, ?Dt, ?Cq, ?Cp, ?Ct.
  - intros Hne. destruct (pend s =? r) eqn:E; [congruence|].
    destruct (H1 Hne) as [t' Ht']. rewrite Hq in Ht'. inversion Ht'. apply Z.eqb_neq in E. congruence.
  - rewrite Hq in H2. inversion H2; assumption.
  - cbn. rewrite H3, Hq. rewrite <- app_assoc. reflexivity.
Qed.

Lemma complete_frame b s r :
  tr (complete b s r) = tr s /\ started (complete b s r) = started s /\ tmo (complete b s r) = tmo s /\
  tok (complete b s r) = tok s /\ conn (complete b s r) = conn s /\ paused (complete b s r) = paused s.
Proof.
  unfold complete. destruct (q s) as [|h t]; [repeat split; reflexivity|].
  destruct (h =? r); [|repeat split; reflexivity].
  destruct (b && (1 <=? readyC _)); cbn; repeat split; reflexivity.
Qed.

Lemma dispatch_frame s :
  started (dispatch s) = started s /\ tmo (dispatch s) = tmo s /\ tok (dispatch s) = tok s /\
  conn (dispatch s) = conn s /\ paused (dispatch s) = paused s.
Proof.
  unfold dispatch.
  match goal with |- context [if ?c then _ else _] => destruct c end.
  - cbn. repeat split; reflexivity.
  - match goal with |- context [conclude (complete ?b ?x ?r) ?r ?k] =>
      destruct (conclude_core (complete b x r) r k) as (_ & _ & _ & A1 & A2 & A3 & A4 & A5);
      destruct (complete_frame b x r) as (_ & B1 & B2 & B3 & B4 & B5) end.
    rewrite A1, A2, A3, A4, A5, B1, B2, B3, B4, B5. cbn. repeat split; reflexivity.
Qed.

Lemma G1_dispatch s h t : G1 s -> q s = h :: t -> G1 (dispatch s).
Proof.
  intros G Hq. unfold dispatch. rewrite Hq. cbn [head].
  set (s1 := set_pend s _). set (s2 := emit s1 _).
  assert (Hh : h <> 0). { destruct G as [_ Hp _]. unfold Jpos in Hp. rewrite Hq in Hp. inversion Hp; assumption. }
  assert (G2 : G1 s2).
  { destruct G as [H1 H2 H3]. unfold J1, Jpos, J4 in *. constructor; unfold J1, Jpos, J4; subst s2 s1; cbn.
    - intros Hne. destruct (pend s =? 0) eqn:E; cbn in *.
      + apply Z.eqb_neq in Hh. rewrite Hh in *. cbn in *. exists t. assumption.
      + apply H1. apply Z.eqb_neq. assumption.
    - assumption.
    - assumption. }
  destruct (conn s2 && negb (failw s2)); [exact G2|].
  apply G1_complete_conclude with (t := t); [exact G2|]. subst s2 s1; cbn. exact Hq.
Qed.

Lemma pump_tail_frame s :
  started (pump_tail s) = started s /\ conn (pump_tail s) = conn s /\ paused (pump_tail s) = paused s.
Proof.
  unfold pump_tail.
  destruct (pumpStuck s); [repeat split; reflexivity|].
  destruct (paused s) eqn:Ep; [repeat split; auto|].
  match goal with |- context [if ?c then _ else _] => destruct c end; [|repeat split; auto].
  destruct (dispatch_frame s) as (A1 & A2 & A3 & A4 & A5).
  destruct (pumpStuck (dispatch s)); [repeat split; congruence|].
  set (s2 := set_rdy (dispatch s) false).
  destruct (stop_drain_core s2) as (_ & _ & _ & B1 & B2 & B3 & _).
  destruct (pumpStuck (stop_drain s2)); cbn; rewrite ?B1, ?B2, ?B3; subst s2; cbn; repeat split; congruence.
Qed.

Lemma G1_pump_tail s : G1 s -> G1 (pump_tail s).
Proof.
  intros G. unfold pump_tail.
  destruct (pumpStuck s); [exact G|].
  destruct (paused s); [exact G|].
  destruct (rdy s); cbn [andb]; [|exact G].
  destruct (q s) as [|h t] eqn:Eq; cbn [negb]; [exact G|].
  pose proof (G1_dispatch s h t G Eq) as Gd.
  destruct (pumpStuck (dispatch s)); [exact Gd|].
  set (s2 := set_rdy (dispatch s) false).
  assert (G2 : G1 s2) by (eapply G1_ext; [| | | |exact Gd]; reflexivity).
  destruct (stop_drain_core s2) as (B1 & B2 & B3 & _).
  assert (G3 : G1 (stop_drain s2)) by (eapply G1_ext; [| | | |exact G2]; congruence).
  destruct (pumpStuck (stop_drain s2)); [exact G3|].
  eapply G1_ext; [| | | |exact G3]; reflexivity.
Qed.

Ltac g1ext G := eapply G1_ext; [| | | |exact G]; cbn; try reflexivity.

Lemma step_G1 l s : wf_lab l -> G1 s -> G1 (step l s).
Proof.
  intros Hw G. destruct l; cbn [step wf_lab] in *.
  - (* Send *)
    set (s1 := set_cbq s _).
    destruct (started s1 && negb (closing s1) && valid && negb (q_is_full s1)).
    + destruct G as [H1 H2 H3]. unfold J1, Jpos, J4 in *. constructor; unfold J1, Jpos, J4; subst s1; cbn.
      * intros Hne. destruct (H1 Hne) as [t Ht]. rewrite Ht. exists (t ++ [r]). reflexivity.
      * apply Forall_app. split; [assumption|]. constructor; [assumption|constructor].
      * rewrite H3. rewrite app_assoc. reflexivity.
    + destruct (started s1 && closing s1 && valid && negb (q_is_full s1)); g1ext G.
  - (* Reply *)
    destruct (negb (r =? 0) && (pend s =? r)) eqn:E; [|exact G].
    apply andb_true_iff in E as [E1 E2]. apply Z.eqb_eq in E2. apply negb_true_iff, Z.eqb_neq in E1.
    destruct G as [H1 H2 H3]. assert (Hne : pend s <> 0) by congruence.
    destruct (H1 Hne) as [t Ht]. rewrite E2 in Ht.
    apply G1_complete_conclude with (t := t); [constructor; assumption|exact Ht].
  - (* Expire *) destruct (tmo s); g1ext G.
  - (* Tick *)
    set (s1 := set_now s _). assert (G1' : G1 s1) by g1ext G.
    destruct (tmo s1); try exact G1'. destruct (deadline <=? now s1); [g1ext G1'|exact G1'].
  - (* Drop *)
    destruct (conn s); [|exact G]. set (s1 := emit _ _). assert (G1' : G1 s1) by g1ext G.
    destruct (started s1); [|exact G1'].
    destruct (stop_drain_core s1) as (B1 & B2 & B3 & _). eapply G1_ext; [| | | |exact G1']; cbv zeta; cbn; rewrite ?B1, ?B2, ?B3; reflexivity.
  - (* Reconn *)
    destruct (negb (conn s) && started s && negb (closing s)); [|exact G].
    match goal with |- context [if ?c then _ else _] => destruct c end; g1ext G.
  - (* NetFail *) g1ext G.
  - (* Stop *) destruct (started s && negb (closing s)); [g1ext G|exact G].
  - (* Start *) destruct (negb (started s)); [g1ext G|exact G].
  - (* PumpStop *)
    destruct (started s && closing s && negb (pumpStuck s)); [|exact G].
    constructor; unfold J1, Jpos, J4; cbn; [congruence|constructor|reflexivity].
  - (* PumpReq *)
    destruct (pump_can_run s && negb (closing s) && (1 <=? reqC s)); [|exact G].
    apply G1_pump_tail. g1ext G.
  - (* PumpReady *)
    destruct (pump_can_run s && (1 <=? readyC s)); [|exact G].
    apply G1_pump_tail. g1ext G.
  - (* PumpTimer *)
    destruct (pump_can_run s && tok s); [|exact G].
    set (s1 := set_timer s (tmo s) false). assert (G1' : G1 s1) by g1ext G.
    assert (G2 : G1 (if negb (pend s1 =? 0)
                     then match q s1 with
                          | [] => set_stuck (emit s1 EPanic) true
                          | h :: _ => conclude (complete true s1 h) h K_TIMEOUT
                          end
                     else s1)).
    { destruct (negb (pend s1 =? 0)) eqn:E; [|exact G1'].
      apply negb_true_iff, Z.eqb_neq in E.
      destruct (q s1) as [|h t] eqn:Eq.
      - destruct G1' as [H1 _ _]. destruct (H1 E) as [t Ht]. congruence.
      - apply G1_complete_conclude with (t := t); assumption. }
    cbv zeta. match type of G2 with G1 ?x => set (s2 := x) in * end.
    destruct (pumpStuck s2); [exact G2|]. apply G1_pump_tail. g1ext G2.
  - (* Deliver *)
    destruct (handlerOn s && negb (stopSig s)); [|exact G].
    destruct (concC s) as [|[r k] rest]; [exact G|].
    destruct (cbq (set_concC s rest)); g1ext G.
  - (* DeliverStop *)
    destruct (handlerOn s && stopSig s); [g1ext G|exact G].
Qed.

(* --- the G2 group: connection flags and "no write while disconnected" --- *)

Definition Jclosing (s : cl) : Prop := closing s = true -> conn s = false.
Record G2 (s : cl) : Prop := { g_conn : Jconn s; g_closing : Jclosing s; g_scan : Jscan s }.

Lemma dispatch_scan s : paused s = false -> Jscan s -> Jscan (dispatch s).
Proof.
  unfold Jscan, dispatch. intros Hp Hs.
  match goal with |- context [if ?c then _ else _] => destruct c end.
  - cbn. rewrite Hs, Hp. reflexivity.
  - match goal with |- context [conclude (complete ?b ?x ?r) ?r ?k] =>
      destruct (conclude_core (complete b x r) r k) as (_ & _ & A1 & _ & _ & _ & _ & A2);
      destruct (complete_frame b x r) as (B1 & _ & _ & _ & _ & B2) end.
    rewrite A1, A2, B1, B2. cbn. rewrite Hs, Hp. reflexivity.
Qed.

Lemma dispatch_closing s : closing (dispatch s) = closing s.
Proof.
  unfold dispatch. match goal with |- context [if ?c then _ else _] => destruct c end; [reflexivity|].
  unfold conclude, complete; cbn. destruct (q s) as [|h t]; cbn; [reflexivity|].
  rewrite Z.eqb_refl. match goal with |- context [if ?c then _ else _] => destruct c end; reflexivity.
Qed.

Lemma stop_drain_closing s : closing (stop_drain s) = closing s.
Proof. unfold stop_drain. destruct (tmo s); [destruct (tok s)|..]; reflexivity. Qed.

Lemma pump_tail_closing s : closing (pump_tail s) = closing s.
Proof.
  unfold pump_tail. destruct (pumpStuck s); [reflexivity|]. destruct (paused s); [reflexivity|].
  match goal with |- context [if ?c then _ else _] => destruct c end; [|reflexivity].
  pose proof (dispatch_closing s) as D.
  destruct (pumpStuck (dispatch s)); [exact D|].
  set (s2 := set_rdy (dispatch s) false).
  pose proof (stop_drain_closing s2) as D2.
  destruct (pumpStuck (stop_drain s2)); cbn; rewrite D2; exact D.
Qed.

Lemma G2_pump_tail s : G2 s -> G2 (pump_tail s).
Proof.
  intros [Hc Hcl Hs].
  destruct (pump_tail_frame s) as (F1 & F2 & F3). pose proof (pump_tail_closing s) as F4.
  constructor; unfold Jconn, Jclosing, Jscan in *; rewrite ?F1, ?F2, ?F3, ?F4; try assumption.
  unfold pump_tail.
  destruct (pumpStuck s); [assumption|]. destruct (paused s) eqn:Ep; [assumption|].
  match goal with |- context [if ?c then _ else _] => destruct c end; [|assumption].
  assert (Hs' : Jscan s) by (unfold Jscan; rewrite Ep; exact Hs).
  pose proof (dispatch_scan s Ep Hs') as D. unfold Jscan in D.
  destruct (dispatch_frame s) as (_ & _ & _ & _ & A5). rewrite A5, Ep in D.
  destruct (pumpStuck (dispatch s)); [exact D|].
  set (s2 := set_rdy (dispatch s) false).
  destruct (stop_drain_core s2) as (_ & _ & B3 & _).
  destruct (pumpStuck (stop_drain s2)); cbn; rewrite B3; exact D.
Qed.

Lemma complete_closing b s r : closing (complete b s r) = closing s.
Proof.
  unfold complete. destruct (q s) as [|h t]; [reflexivity|]. destruct (h =? r); [|reflexivity].
  match goal with |- context [if ?c then _ else _] => destruct c end; reflexivity.
Qed.

Lemma G2_complete_conclude b s r k : G2 s -> G2 (conclude (complete b s r) r k).
Proof.
  intros [Hc Hcl Hs].
  destruct (conclude_core (complete b s r) r k) as (_ & _ & A1 & A2 & _ & _ & A3 & A4).
  destruct (complete_frame b s r) as (B1 & B2 & _ & _ & B3 & B4).
  constructor; unfold Jconn, Jclosing, Jscan in *.
  - rewrite A2, A3, B2, B3. assumption.
  - unfold conclude; cbn. rewrite complete_closing. destruct (complete_frame b s r) as (_ & _ & _ & _ & C & _). rewrite C. assumption.
  - rewrite A1, A4, B1, B4. cbn. rewrite Hs. reflexivity.
Qed.

Lemma step_G2 l s : G2 s -> G2 (step l s).
Proof.
  intros G. pose proof G as [Hc Hcl Hs]. unfold Jconn, Jclosing, Jscan in *.
  destruct l; cbn [step].
  - (* Send *)
    repeat match goal with |- context [if ?c then _ else _] => destruct c end;
      (constructor; unfold Jconn, Jclosing, Jscan; cbn; [assumption|assumption|rewrite Hs; try reflexivity]).
  - destruct (negb (r =? 0) && (pend s =? r)); [apply G2_complete_conclude|]; exact G.
  - destruct (tmo s); constructor; unfold Jconn, Jclosing, Jscan; cbn; assumption.
  - set (s1 := set_now s _).
    assert (G' : G2 s1) by (constructor; unfold Jconn, Jclosing, Jscan; cbn; assumption).
    destruct (tmo s1); try exact G'. destruct (deadline <=? now s1); [|exact G'].
    constructor; unfold Jconn, Jclosing, Jscan; cbn; assumption.
  - (* Drop *)
    destruct (conn s) eqn:Ec; [|exact G]. cbv zeta.
    change (started (emit (set_conn s false) EDrop)) with (started s). rewrite (Hc eq_refl).
    set (s1 := emit (set_conn s false) EDrop).
    destruct (stop_drain_core s1) as (_ & _ & B3 & B4 & B5 & _).
    constructor; unfold Jconn, Jclosing, Jscan; cbn; rewrite ?B3, ?B4, ?B5; subst s1; cbn.
    + discriminate.
    + reflexivity.
    + rewrite Hs. reflexivity.
  - (* Reconn *)
    destruct (negb (conn s) && started s && negb (closing s)) eqn:E; [|exact G].
    apply andb_true_iff in E as [E E3]. apply andb_true_iff in E as [E1 E2]. apply negb_true_iff in E3.
    match goal with |- context [if ?c then _ else _] => destruct c end;
      (constructor; unfold Jconn, Jclosing, Jscan; cbn; [auto|congruence|rewrite Hs; reflexivity]).
  - constructor; unfold Jconn, Jclosing, Jscan; cbn; assumption.
  - (* Stop *)
    destruct (started s && negb (closing s)) eqn:E; [|exact G].
    constructor; unfold Jconn, Jclosing, Jscan; cbn; [congruence|reflexivity|rewrite Hs; reflexivity].
  - (* Start *)
    destruct (negb (started s)); [|exact G].
    constructor; unfold Jconn, Jclosing, Jscan; cbn; [reflexivity|congruence|rewrite Hs; reflexivity].
  - (* PumpStop *)
    destruct (started s && closing s && negb (pumpStuck s)) eqn:E; [|exact G].
    apply andb_true_iff in E as [E _]. apply andb_true_iff in E as [_ E].
    constructor; unfold Jconn, Jclosing, Jscan; cbn; [rewrite (Hcl E); congruence|congruence|rewrite Hs; reflexivity].
  - destruct (pump_can_run s && negb (closing s) && (1 <=? reqC s)); [|exact G].
    apply G2_pump_tail. constructor; unfold Jconn, Jclosing, Jscan; cbn; assumption.
  - destruct (pump_can_run s && (1 <=? readyC s)); [|exact G].
    apply G2_pump_tail. constructor; unfold Jconn, Jclosing, Jscan; cbn; assumption.
  - (* PumpTimer *)
    destruct (pump_can_run s && tok s); [|exact G].
    set (s1 := set_timer s (tmo s) false).
    assert (G' : G2 s1) by (constructor; unfold Jconn, Jclosing, Jscan; cbn; assumption).
    assert (G'' : G2 (if negb (pend s1 =? 0)
                     then match q s1 with
                          | [] => set_stuck (emit s1 EPanic) true
                          | h :: _ => conclude (complete true s1 h) h K_TIMEOUT
                          end
                     else s1)).
    { destruct (negb (pend s1 =? 0)); [|exact G'].
      destruct (q s1) as [|h t]; [|apply G2_complete_conclude; exact G'].
      constructor; unfold Jconn, Jclosing, Jscan; cbn; [assumption|assumption|rewrite Hs; reflexivity]. }
    cbv zeta. match type of G'' with G2 ?x => set (s2 := x) in * end.
    destruct (pumpStuck s2); [exact G''|]. apply G2_pump_tail.
    destruct G'' as [X1 X2 X3]. constructor; unfold Jconn, Jclosing, Jscan in *; cbn; assumption.
  - (* Deliver *)
    destruct (handlerOn s && negb (stopSig s)); [|exact G].
    destruct (concC s) as [|[r k] rest]; [exact G|].
    destruct (cbq (set_concC s rest));
      (constructor; unfold Jconn, Jclosing, Jscan; cbn; [assumption|assumption|rewrite Hs; reflexivity]).
  - destruct (handlerOn s && stopSig s); [|exact G].
    constructor; unfold Jconn, Jclosing, Jscan; cbn; assumption.
Qed.

(* ------------------------------------------------------------------ *)
(** * runs *)

Lemma run_app l1 l2 s : run (l1 ++ l2) s = run l2 (run l1 s).
Proof. unfold run. apply fold_left_app. Qed.

Lemma run_G1 ls : forall s, Forall wf_lab ls -> G1 s -> G1 (run ls s).
Proof.
  induction ls as [|l ls IH]; intros s Hw G; [exact G|].
  inversion Hw; subst. cbn. apply IH; [assumption|]. apply step_G1; assumption.
Qed.

Lemma run_G2 ls : forall s, G2 s -> G2 (run ls s).
Proof.
  induction ls as [|l ls IH]; intros s G; [exact G|]. cbn. apply IH. apply step_G2; assumption.
Qed.

Lemma G1_init c t : G1 (init c t).
Proof. constructor; [intros H; cbv in H; congruence|apply Forall_nil|reflexivity]. Qed.

Lemma G2_init c t : G2 (init c t).
Proof. constructor; [intros H; cbv in H; discriminate|intros H; cbv in H; discriminate|reflexivity]. Qed.

(** C01 (OCPP-J layer), every schedule: nothing accepted is lost or concluded twice --
    accepted = concluded ++ still queued, as sequences *)
Theorem nothing_lost_S1 : forall c t ls, Forall wf_lab ls ->
  let s := run ls (init c t) in acc (tr s) = conc (tr s) ++ q s.
Proof. intros c t ls Hw. exact (g_j4 _ (run_G1 ls _ Hw (G1_init c t))). Qed.

(** the outstanding request is always the head of the queue *)
Theorem pending_is_head_S1 : forall c t ls, Forall wf_lab ls ->
  let s := run ls (init c t) in pend s <> 0 -> exists rest, q s = pend s :: rest.
Proof. intros c t ls Hw. exact (g_j1 _ (run_G1 ls _ Hw (G1_init c t))). Qed.

(** C10, every schedule: no CALL is handed to the network between a disconnect and the next reconnect *)
Theorem no_write_while_disconnected_S1 : forall c t ls,
  pscan (tr (run ls (init c t))) <> None.
Proof. intros c t ls. rewrite (g_scan _ (run_G2 ls _ (G2_init c t))). discriminate. Qed.

(** C09, every state: a reply whose id is not the pending one changes nothing at all *)
Theorem foreign_reply_noop : forall s r k, pend s <> r \/ r = 0 -> step (Reply r k) s = s.
Proof.
  intros s r k H. cbn [step]. destruct (r =? 0) eqn:E0; [reflexivity|].
  destruct (pend s =? r) eqn:E; [|reflexivity].
  apply Z.eqb_eq in E. apply Z.eqb_neq in E0. destruct H; congruence.
Qed.

(** ... hence it can be erased from any schedule without changing anything that follows,
    in particular the genuine reply is still accepted afterwards *)
Theorem foreign_reply_erasable : forall l1 l2 s r k,
  (pend (run l1 s) <> r \/ r = 0) -> run (l1 ++ Reply r k :: l2) s = run (l1 ++ l2) s.
Proof.
  intros l1 l2 s r k H. rewrite !run_app. unfold run at 1. cbn [fold_left].
  rewrite foreign_reply_noop by exact H. reflexivity.
Qed.

(** C10, every state: disconnect and reconnect leave the queue untouched *)
Theorem drop_keeps_queue : forall s, q (step Drop s) = q s /\ pend (step Drop s) = pend s.
Proof.
  intros s. cbn [step]. destruct (conn s); [|auto]. cbv zeta.
  set (s1 := emit _ _). destruct (started s1); [|auto].
  destruct (stop_drain_core s1) as (B1 & B2 & _). cbn. rewrite B1, B2. auto.
Qed.

Theorem reconn_keeps_queue : forall s, q (step Reconn s) = q s /\ pend (step Reconn s) = pend s.
Proof.
  intros s. cbn [step]. destruct (negb (conn s) && started s && negb (closing s)); [|auto]. cbv zeta.
  match goal with |- context [if ?c then _ else _] => destruct c end; auto.
Qed.
