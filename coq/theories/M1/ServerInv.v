(** M1, server: C02 for the central system / CSMS dispatcher in EVERY schedule.  For each client, the trace read oldest
    first is accepted by the monitor [outst]: a CALL is written only while nothing is outstanding for that client, a
    conclusion by the OCPP-J layer concludes exactly the outstanding CALL, and the end of a session forgets it; the
    monitor's state is the dispatcher's pending id, which is the head of that client's queue.  ([SDrop] is a ghost
    event of the model, not observable.) *)
From Verif Require Import Base.Prelude M1.Containers M1.Server M1.ServerProofs.

Definition app_ev (c : Z) (e : sev) (o : Z) : option Z :=
  match e with
  | SWr c' r => if c' =? c then (if o =? 0 then Some r else None) else Some o
  | SConc c' r _ => if c' =? c then (if o =? r then Some 0 else None) else Some o
  | SDrop c' => if c' =? c then Some 0 else Some o
  | _ => Some o
  end.

(** [tr] is newest first, as [str] *)
Fixpoint outst (c : Z) (tr : list sev) : option Z :=
  match tr with
  | [] => Some 0
  | e :: older => match outst c older with Some o => app_ev c e o | None => None end
  end.

Definition quiet (e : sev) : Prop := match e with SWr _ _ | SConc _ _ _ | SDrop _ => False | _ => True end.

Lemma outst_quiet c evs tr : Forall quiet evs -> outst c (evs ++ tr) = outst c tr.
Proof.
  induction 1 as [|e evs He _ IH]; [reflexivity|]. cbn [app outst]. rewrite IH.
  destruct (outst c tr); [|reflexivity]. destruct e; cbn in *; try reflexivity; contradiction.
Qed.

(* ---- reading the maps ---- *)
Lemma zeqb_sym a b : (a =? b) = (b =? a).
Proof. destruct (a =? b) eqn:E; [apply Z.eqb_eq in E; subst; rewrite Z.eqb_refl; reflexivity|]. destruct (b =? a) eqn:E2; [apply Z.eqb_eq in E2; subst; rewrite Z.eqb_refl in E; discriminate|reflexivity]. Qed.

Lemma aget_set {V} (m : list (Z * V)) c v d : a_get (a_set m c v) d = if c =? d then Some v else a_get m d.
Proof. destruct (c =? d) eqn:E; [apply Z.eqb_eq in E; subst; apply a_get_set_same|apply Z.eqb_neq in E; apply a_get_set_other; exact E]. Qed.
Lemma aget_del {V} (m : list (Z * V)) c d : a_get (a_del m c) d = if c =? d then None else a_get m d.
Proof. destruct (c =? d) eqn:E; [apply Z.eqb_eq in E; subst; apply a_get_del_same|apply Z.eqb_neq in E; apply a_get_del_other; exact E]. Qed.

(** the fields the invariant reads *)
Record same_core (s s' : sv) : Prop := {
  sc_qm : qm s' = qm s; sc_pendm : pendm s' = pendm s; sc_conns : conns s' = conns s;
  sc_running : running s' = running s; sc_stopping : stopping s' = stopping s; sc_stuck : pumpStuck s' = pumpStuck s;
  sc_str : str s' = str s }.

Lemma same_core_refl s : same_core s s. Proof. constructor; reflexivity. Qed.
Lemma same_core_trans s1 s2 s3 : same_core s1 s2 -> same_core s2 s3 -> same_core s1 s3.
Proof. intros [] []; constructor; congruence. Qed.

Lemma set_cbs_core s c l : same_core s (set_cbs s c l).
Proof. unfold set_cbs. destruct l; constructor; reflexivity. Qed.

Lemma ctx_deactivate_core s c : same_core s (ctx_deactivate s c).
Proof. unfold ctx_deactivate. destruct (ctx_active s c); constructor; reflexivity. Qed.

(** emitting quiet events *)
Record quiet_ext (s s' : sv) : Prop := {
  qe_qm : qm s' = qm s; qe_pendm : pendm s' = pendm s; qe_conns : conns s' = conns s;
  qe_running : running s' = running s; qe_stopping : stopping s' = stopping s; qe_stuck : pumpStuck s' = pumpStuck s;
  qe_str : exists evs, str s' = evs ++ str s /\ Forall quiet evs }.

Lemma quiet_ext_refl s : quiet_ext s s.
Proof. constructor; try reflexivity. exists []. split; [reflexivity|constructor]. Qed.

Lemma quiet_ext_trans s1 s2 s3 : quiet_ext s1 s2 -> quiet_ext s2 s3 -> quiet_ext s1 s3.
Proof.
  intros [A1 A2 A3 A4 A5 A8 (e1 & A6 & A7)] [B1 B2 B3 B4 B5 B8 (e2 & B6 & B7)]. constructor; try congruence.
  exists (e2 ++ e1). split; [rewrite B6, A6, app_assoc; reflexivity|apply Forall_app; split; assumption].
Qed.

Lemma quiet_ext_core s s' : same_core s s' -> quiet_ext s s'.
Proof. intros []. constructor; try assumption. exists []. split; [cbn; assumption|constructor]. Qed.

Lemma quiet_ext_semit s e : quiet e -> quiet_ext s (semit s e).
Proof. intros H. constructor; try reflexivity. exists [e]. split; [reflexivity|constructor; [exact H|constructor]]. Qed.

Lemma deliver_quiet s c r k : quiet_ext s (deliver s c r k).
Proof.
  unfold deliver. destruct (cbs_of s c) as [|cb rest]; [apply quiet_ext_semit; exact I|].
  apply (quiet_ext_trans _ (set_cbs s c rest)); [apply quiet_ext_core, set_cbs_core|apply quiet_ext_semit; exact I].
Qed.

Lemma fold_disc_quiet c l : forall s, quiet_ext s (fold_left (fun st cb => semit st (SCb c cb 0 K_DISC)) l s).
Proof.
  induction l as [|x l IH]; intros s; [apply quiet_ext_refl|]. cbn [fold_left].
  apply (quiet_ext_trans _ (semit s (SCb c x 0 K_DISC))); [apply quiet_ext_semit; exact I|apply IH].
Qed.

(** on_disconnected: the queue and the pending id of [c] go, nothing else that the invariant reads changes *)
Lemma on_disconnected_spec s c : let s' := on_disconnected s c in
  qm s' = a_del (qm s) c /\ pendm s' = a_del (pendm s) c /\ conns s' = conns s /\ running s' = running s /\
  stopping s' = stopping s /\ pumpStuck s' = pumpStuck s /\ exists evs, str s' = evs ++ str s /\ Forall quiet evs.
Proof.
  unfold on_disconnected. cbv zeta.
  set (sq := upd_qm s (a_del (qm s) c)).
  set (s1 := upd_removed sq (c :: del c (removed sq))).
  set (s2 := if running s1 then upd_reqC s1 (reqC s1 ++ [c]) else s1).
  set (s3 := upd_pendm s2 (a_del (pendm s2) c)).
  set (s4 := fold_left _ (cbs_of s3 c) s3).
  set (s5 := set_cbs s4 c []).
  assert (Q : quiet_ext s3 (if drain s5 then semit s5 (SGone c) else s5)).
  { apply (quiet_ext_trans _ s4); [apply fold_disc_quiet|].
    apply (quiet_ext_trans _ s5); [apply quiet_ext_core, set_cbs_core|].
    destruct (drain s5); [apply quiet_ext_semit; exact I|apply quiet_ext_refl]. }
  destruct Q as [A1 A2 A3 A4 A5 A8 A6].
  assert (B : qm s3 = a_del (qm s) c /\ pendm s3 = a_del (pendm s) c /\ conns s3 = conns s /\ running s3 = running s /\ stopping s3 = stopping s /\ pumpStuck s3 = pumpStuck s /\ str s3 = str s).
  { unfold s3, s2. destruct (running s1); unfold s1, sq; cbn; repeat split; reflexivity. }
  destruct B as (B1 & B2 & B3 & B4 & B5 & B8 & B6).
  rewrite A1, A2, A3, A4, A5, A8, B1, B2, B3, B4, B5, B8. repeat split. rewrite <- B6. exact A6.
Qed.

(** CompleteRequest for the head of the queue, followed by the conclusion *)
Lemma cc_spec b s c h t k : qof s c = Some (h :: t) -> let s' := sconclude (scomplete b s c h) c h k in
  qm s' = a_set (qm s) c t /\ pendm s' = (if pendof s c =? h then a_set (pendm s) c 0 else pendm s) /\
  conns s' = conns s /\ running s' = running s /\ stopping s' = stopping s /\ pumpStuck s' = pumpStuck s /\
  exists evs, str s' = evs ++ SConc c h k :: str s /\ Forall quiet evs.
Proof.
  intros Hq. cbv zeta. unfold sconclude, scomplete. rewrite Hq, Z.eqb_refl.
  set (s1 := upd_qm s (a_set (qm s) c t)).
  change (pendof s1 c) with (pendof s c).
  set (s2 := if pendof s c =? h then upd_pendm s1 (a_set (pendm s1) c 0) else s1).
  set (s3 := upd_readyC s2 (readyC s2 ++ [c])).
  set (s4 := semit s3 (SConc c h k)).
  destruct (deliver_quiet s4 c h k) as [A1 A2 A3 A4 A5 A8 (evs & A6 & A7)].
  rewrite A1, A2, A3, A4, A5, A8.
  assert (B : qm s4 = a_set (qm s) c t /\ pendm s4 = (if pendof s c =? h then a_set (pendm s) c 0 else pendm s) /\
              conns s4 = conns s /\ running s4 = running s /\ stopping s4 = stopping s /\ pumpStuck s4 = pumpStuck s /\ str s4 = SConc c h k :: str s).
  { subst s4 s3 s2 s1. destruct (pendof s c =? h); cbn; repeat split; reflexivity. }
  destruct B as (B1 & B2 & B3 & B4 & B5 & B8 & B6). rewrite B1, B2, B3, B4, B5, B8. repeat split.
  exists evs. split; [|exact A7]. rewrite A6, B6. reflexivity.
Qed.

(* ------------------------------------------------------------------ *)
(** * the invariant *)

Record SInv (s : sv) : Prop := {
  i_head : forall c, pendof s c <> 0 -> exists t, qof s c = Some (pendof s c :: t);
  i_pos : forall c l, qof s c = Some l -> Forall (fun x => x <> 0) l;
  i_mon : forall c, outst c (str s) = Some (pendof s c);
  i_q : forall c, qof s c <> None -> mem c (conns s) = true;
  i_run : running s = false -> forall c, qof s c = None;
  i_stop : stopping s = true -> running s = false;
  i_ns : pumpStuck s = false }.

Lemma SInv_init cap d : SInv (sinit cap d).
Proof. constructor; cbn; intros; try congruence; try discriminate; auto. Qed.

Lemma SInv_quiet s s' : quiet_ext s s' -> SInv s -> SInv s'.
Proof.
  intros [A1 A2 A3 A4 A5 A8 (evs & A6 & A7)] [H1 H2 H3 H4 H5 H6 H7].
  constructor; unfold qof, pendof in *; rewrite ?A1, ?A2, ?A3, ?A4, ?A5, ?A8; try assumption.
  intros c. rewrite A6, outst_quiet by exact A7. apply H3.
Qed.

Lemma SInv_core s s' : same_core s s' -> SInv s -> SInv s'.
Proof. intros H. apply SInv_quiet, quiet_ext_core, H. Qed.

Lemma qof_eq (s s' : sv) m : qm s' = m -> forall d, qof s' d = a_get m d.
Proof. intros H d. unfold qof. rewrite H. reflexivity. Qed.
Lemma pendof_eq (s s' : sv) m : pendm s' = m -> forall d, pendof s' d = match a_get m d with Some p => p | None => 0 end.
Proof. intros H d. unfold pendof. rewrite H. reflexivity. Qed.

(** concluding the outstanding request, which is the head of the queue *)
Lemma SInv_cc b s c h t k : SInv s -> qof s c = Some (h :: t) -> pendof s c = h ->
  SInv (sconclude (scomplete b s c h) c h k).
Proof.
  intros [H1 H2 H3 H4 H5 H6 H7] Hq Hp.
  destruct (cc_spec b s c h t k Hq) as (A1 & A2 & A3 & A4 & A5 & A8 & evs & A6 & A7).
  set (s' := sconclude (scomplete b s c h) c h k) in *.
  rewrite Hp, Z.eqb_refl in A2.
  assert (Q : forall d, qof s' d = if c =? d then Some t else qof s d).
  { intros d. rewrite (qof_eq s s' _ A1), aget_set. reflexivity. }
  assert (P : forall d, pendof s' d = if c =? d then 0 else pendof s d).
  { intros d. rewrite (pendof_eq s s' _ A2), aget_set. destruct (c =? d); reflexivity. }
  constructor.
  - intros d. rewrite P, Q. destruct (c =? d); [congruence|apply H1].
  - intros d l. rewrite Q. destruct (c =? d) eqn:E; [|apply H2].
    intros X. inversion X; subst l. specialize (H2 c _ Hq). inversion H2; assumption.
  - intros d. rewrite A6, outst_quiet by exact A7. cbn [outst]. rewrite H3, P. cbn [app_ev].
    destruct (c =? d) eqn:E; [|reflexivity]. apply Z.eqb_eq in E. subst d. rewrite Hp, Z.eqb_refl. reflexivity.
  - intros d. rewrite Q, A3. destruct (c =? d) eqn:E; [|apply H4].
    intros _. apply Z.eqb_eq in E. subst d. apply H4. congruence.
  - rewrite A4. intros X d. rewrite Q. specialize (H5 X c). congruence.
  - rewrite A4, A5. exact H6.
  - rewrite A8. exact H7.
Qed.

(** dispatchNextRequest for a client with nothing outstanding and a non-empty queue *)
Lemma SInv_dispatch s c h t : SInv s -> cur s = c -> qof s c = Some (h :: t) -> pendof s c = 0 -> SInv (sdispatch s).
Proof.
  intros I Hc Hq Hp. pose proof I as [H1 H2 H3 H4 H5 H6 H7].
  assert (Hh : h <> 0) by (specialize (H2 c _ Hq); inversion H2; assumption).
  unfold sdispatch. rewrite Hc, Hq, Hp. cbn [Z.eqb andb]. apply Z.eqb_neq in Hh. rewrite Hh. cbn [negb andb]. apply Z.eqb_neq in Hh.
  set (s1 := upd_pendm s (a_set (pendm s) c h)). set (s2 := semit s1 (SWr c h)).
  assert (Q2 : forall d, qof s2 d = qof s d) by reflexivity.
  assert (P2 : forall d, pendof s2 d = if c =? d then h else pendof s d).
  { intros d. unfold pendof. subst s2 s1. cbn. rewrite aget_set. destruct (c =? d); reflexivity. }
  assert (I2 : SInv s2).
  { constructor.
    - intros d. rewrite P2, Q2. destruct (c =? d) eqn:E; [|apply H1]. apply Z.eqb_eq in E. subst d. intros _. exists t. exact Hq.
    - intros d l. rewrite Q2. apply H2.
    - intros d. rewrite P2. change (str s2) with (SWr c h :: str s). cbn [outst]. rewrite H3. cbn [app_ev].
      destruct (c =? d) eqn:E; [|reflexivity]. apply Z.eqb_eq in E. subst d. rewrite Hp. reflexivity.
    - intros d. rewrite Q2. apply H4.
    - intros X d. rewrite Q2. apply H5. exact X.
    - exact H6.
    - exact H7. }
  destruct (mem c (conns s2) && negb (mem c (failw s2))).
  - apply (SInv_core s2); [constructor; reflexivity|exact I2].
  - match goal with |- SInv (upd_ctxm ?x _) => apply (SInv_core x); [constructor; reflexivity|] end.
    apply SInv_cc with (t := t); [exact I2|rewrite Q2; exact Hq|rewrite P2, Z.eqb_refl; reflexivity].
Qed.

Lemma SInv_stail s : SInv s -> (curQ s = None \/ curQ s = Some (cur s)) -> SInv (stail s).
Proof.
  intros I Hc. unfold stail. destruct (pumpStuck s); [exact I|].
  destruct (curQ s) as [qc|] eqn:Eq; [|exact I].
  destruct Hc as [Hc|Hc]; [discriminate|]. inversion Hc; subst qc.
  destruct (rdy s); cbn [andb]; [|exact I].
  destruct (qof s (cur s)) as [[|h t]|] eqn:Eqq; cbn [negb andb]; try exact I.
  destruct (pendof s (cur s) =? 0) eqn:Ep; [|exact I]. apply Z.eqb_eq in Ep.
  match goal with |- SInv (upd_loc ?x _ _ _) => apply (SInv_core x); [constructor; reflexivity|] end.
  apply SInv_dispatch with (c := cur s) (h := h) (t := t); auto.
Qed.

(* ---- connections ---- *)
Lemma mem_app c l1 l2 : mem c (l1 ++ l2) = mem c l1 || mem c l2.
Proof. unfold mem. apply existsb_app. Qed.

Lemma mem_del d c l : d <> c -> mem d (del c l) = mem d l.
Proof.
  intros H. unfold mem, del. induction l as [|x l IH]; [reflexivity|]. cbn.
  destruct (x =? c) eqn:E; cbn.
  - apply Z.eqb_eq in E. subst x. rewrite IH. destruct (d =? c) eqn:E2; [apply Z.eqb_eq in E2; congruence|reflexivity].
  - rewrite IH. reflexivity.
Qed.

(** the end of the session of client [c] *)
(* conversions below never need to look inside on_disconnected: keep the kernel and the unifier from unfolding it *)
Strategy opaque [on_disconnected].

Definition disc (st : sv) (c : Z) : sv := on_disconnected (semit st (SDrop c)) c.

Lemma disc_spec st c : let s' := disc st c in
  qm s' = a_del (qm st) c /\ pendm s' = a_del (pendm st) c /\ conns s' = conns st /\ running s' = running st /\
  stopping s' = stopping st /\ pumpStuck s' = pumpStuck st /\ exists evs, str s' = evs ++ SDrop c :: str st /\ Forall quiet evs.
Proof. unfold disc. apply (on_disconnected_spec (semit st (SDrop c)) c). Qed.

Lemma fold_disc_spec cs : forall st, let s' := fold_left disc cs st in
  (forall d, qof s' d = if mem d cs then None else qof st d) /\
  (forall d, pendof s' d = if mem d cs then 0 else pendof st d) /\
  conns s' = conns st /\ running s' = running st /\ stopping s' = stopping st /\ pumpStuck s' = pumpStuck st /\
  (forall d o, outst d (str st) = Some o -> outst d (str s') = Some (if mem d cs then 0 else o)).
Proof.
  induction cs as [|c cs IH]; intros st; cbv zeta.
  - cbn. repeat split; auto.
  - cbn [fold_left]. destruct (IH (disc st c)) as (A1 & A2 & A3 & A4 & A5 & A8 & A6).
    destruct (disc_spec st c) as (B1 & B2 & B3 & B4 & B5 & B8 & evs & B6 & B7).
    assert (Q : forall d, qof (disc st c) d = if c =? d then None else qof st d).
    { intros d. rewrite (qof_eq st _ _ B1), aget_del. reflexivity. }
    assert (P : forall d, pendof (disc st c) d = if c =? d then 0 else pendof st d).
    { intros d. rewrite (pendof_eq st _ _ B2), aget_del. destruct (c =? d); reflexivity. }
    repeat split; try congruence.
    + intros d. rewrite A1, Q. unfold mem. cbn [existsb]. fold (mem d cs). rewrite (zeqb_sym d c).
      destruct (c =? d); cbn; [destruct (mem d cs); reflexivity|reflexivity].
    + intros d. rewrite A2, P. unfold mem. cbn [existsb]. fold (mem d cs). rewrite (zeqb_sym d c).
      destruct (c =? d); cbn; [destruct (mem d cs); reflexivity|reflexivity].
    + intros d o Ho.
      assert (Hd : outst d (str (disc st c)) = Some (if c =? d then 0 else o)).
      { rewrite B6, outst_quiet by exact B7. cbn [outst]. rewrite Ho. cbn [app_ev]. destruct (c =? d); reflexivity. }
      rewrite (A6 d _ Hd). unfold mem. cbn [existsb]. fold (mem d cs). rewrite (zeqb_sym d c).
      destruct (c =? d); cbn; [destruct (mem d cs); reflexivity|reflexivity].
Qed.

Lemma cc_loc b s c r k : curQ (sconclude (scomplete b s c r) c r k) = curQ s /\ cur (sconclude (scomplete b s c r) c r k) = cur s.
Proof.
  unfold sconclude, deliver.
  assert (L : curQ (scomplete b s c r) = curQ s /\ cur (scomplete b s c r) = cur s).
  { unfold scomplete. destruct (qof s c) as [[|h t]|]; try (split; reflexivity).
    destruct (h =? r); [|split; reflexivity]. cbn. match goal with |- context [if ?x then _ else _] => destruct x end; split; reflexivity. }
  destruct L as [L1 L2].
  match goal with |- context [cbs_of ?x c] => destruct (cbs_of x c) as [|cb rest] end.
  - cbn. split; assumption.
  - unfold set_cbs. destruct rest; cbn; split; assumption.
Qed.

Definition wf_slab (l : slab) : Prop := match l with SSend _ r _ => r <> 0 | _ => True end.

Lemma sstep_SInv l s : wf_slab l -> SInv s -> SInv (sstep l s).
Proof.
  intros Hw Hi. pose proof Hi as [H1 H2 H3 H4 H5 H6 H7].
  destruct l as [| |c|c|c r valid|c r k|c|c b| | | |]; cbn [sstep wf_slab] in *.
  - (* SStart *)
    destruct (negb (running s) && negb (pumpAlive s)); [|exact Hi].
    constructor; cbn; try assumption; try discriminate; try reflexivity.
  - (* SStop *)
    destruct (running s) eqn:Er; [|exact Hi]. cbv zeta.
    set (s1 := upd_run s false true (pumpAlive s) (pumpStuck s)).
    change (fun st c => on_disconnected (semit st (SDrop c)) c) with disc.
    destruct (fold_disc_spec (conns s1) (upd_conns s1 [])) as (A1 & A2 & A3 & A4 & A5 & A8 & A6).
    set (s' := fold_left disc (conns s1) (upd_conns s1 [])) in *.
    change (conns s1) with (conns s) in *.
    change (qof (upd_conns s1 []) ) with (qof s) in A1. change (pendof (upd_conns s1 [])) with (pendof s) in A2.
    change (str (upd_conns s1 [])) with (str s) in A6.
    assert (N : forall d, qof s' d = None).
    { intros d. rewrite A1. destruct (mem d (conns s)) eqn:E; [reflexivity|]. destruct (qof s d) eqn:Eq; [|reflexivity].
      rewrite H4 in E; [discriminate|congruence]. }
    assert (Z0 : forall d, pendof s' d = 0).
    { intros d. rewrite A2. destruct (mem d (conns s)) eqn:E; [reflexivity|].
      destruct (Z.eq_dec (pendof s d) 0) as [X|X]; [exact X|]. destruct (H1 d X) as [t Ht]. rewrite H4 in E; [discriminate|congruence]. }
    constructor.
    + intros d X. rewrite Z0 in X. congruence.
    + intros d l X. rewrite N in X. discriminate.
    + intros d. rewrite (A6 d _ (H3 d)), Z0. destruct (mem d (conns s)) eqn:E; [reflexivity|]. rewrite <- (Z0 d), A2, E. reflexivity.
    + intros d X. rewrite N in X. congruence.
    + intros _ d. apply N.
    + intros _. rewrite A4. reflexivity.
    + rewrite A8. exact H7.
  - (* Connect *)
    destruct (mem c (conns s)) eqn:Em; [exact Hi|]. cbv zeta.
    set (s1 := upd_conns s (conns s ++ [c])).
    apply (SInv_quiet (if running s1 then match qof s1 c with Some _ => s1 | None => upd_qm s1 (a_set (qm s1) c []) end else s1));
      [apply quiet_ext_semit; exact I|].
    assert (I1 : SInv s1).
    { constructor; try assumption. intros d X. change (conns s1) with (conns s ++ [c]). rewrite mem_app. rewrite (H4 d X). reflexivity. }
    destruct (running s1) eqn:Er; [|exact I1].
    destruct (qof s1 c) eqn:Eq; [exact I1|].
    change (qof s1 c) with (qof s c) in Eq. change (running s1) with (running s) in Er.
    assert (Q : forall d, qof (upd_qm s1 (a_set (qm s1) c [])) d = if c =? d then Some [] else qof s d).
    { intros d. unfold qof. cbn. rewrite aget_set. reflexivity. }
    constructor.
    + intros d. change (pendof (upd_qm s1 (a_set (qm s1) c [])) d) with (pendof s d). rewrite Q.
      destruct (c =? d) eqn:E; [|apply H1]. apply Z.eqb_eq in E. subst d. intros X. destruct (H1 c X) as [t Ht]. congruence.
    + intros d l. rewrite Q. destruct (c =? d); [intros X; inversion X; constructor|apply H2].
    + exact H3.
    + intros d. rewrite Q. change (conns (upd_qm s1 (a_set (qm s1) c []))) with (conns s ++ [c]). rewrite mem_app.
      destruct (c =? d) eqn:E; [|intros X; rewrite (H4 d X); reflexivity].
      apply Z.eqb_eq in E. subst d. intros _. unfold mem at 2. cbn. rewrite Z.eqb_refl. apply orb_true_r.
    + cbn. intros X. congruence.
    + exact H6.
    + exact H7.
  - (* Disconnect *)
    destruct (mem c (conns s)) eqn:Em; [|exact Hi].
    set (s0 := upd_conns s (del c (conns s))).
    change (on_disconnected (semit s0 (SDrop c)) c) with (disc s0 c).
    destruct (disc_spec s0 c) as (B1 & B2 & B3 & B4 & B5 & B8 & evs & B6 & B7).
    assert (Q : forall d, qof (disc s0 c) d = if c =? d then None else qof s d).
    { intros d. rewrite (qof_eq s0 _ _ B1), aget_del. reflexivity. }
    assert (P : forall d, pendof (disc s0 c) d = if c =? d then 0 else pendof s d).
    { intros d. rewrite (pendof_eq s0 _ _ B2), aget_del. destruct (c =? d); reflexivity. }
    constructor.
    + intros d. rewrite P, Q. destruct (c =? d); [congruence|apply H1].
    + intros d l. rewrite Q. destruct (c =? d); [discriminate|apply H2].
    + intros d. rewrite B6, outst_quiet by exact B7. cbn [outst]. change (str s0) with (str s). rewrite H3, P. cbn [app_ev].
      destruct (c =? d); reflexivity.
    + intros d. rewrite Q, B3. change (conns s0) with (del c (conns s)). destruct (c =? d) eqn:E; [congruence|].
      apply Z.eqb_neq in E. intros X. rewrite mem_del by congruence. apply H4. exact X.
    + rewrite B4. intros X d. rewrite Q. destruct (c =? d); [reflexivity|apply H5; exact X].
    + rewrite B4, B5. exact H6.
    + rewrite B8. exact H7.
  - (* SSend *)
    cbv zeta. set (s1 := set_cbs s c (cbs_of s c ++ [r])).
    assert (I1 : SInv s1) by (apply (SInv_core s); [apply set_cbs_core|exact Hi]).
    assert (Q1 : forall d, qof s1 d = qof s d). { intros d. unfold qof, s1, set_cbs. destruct (cbs_of s c ++ [r]); reflexivity. }
    assert (R1 : running s1 = running s). { unfold s1, set_cbs. destruct (cbs_of s c ++ [r]); reflexivity. }
    match goal with |- SInv (if ?b then _ else _) => destruct b eqn:E end.
    + apply andb_true_iff in E as [E _]. apply andb_true_iff in E as [E E3]. apply andb_true_iff in E as [E1 _].
      destruct (qof s1 c) as [l|] eqn:Eq; [|discriminate].
      match goal with |- SInv (semit ?x _) => apply (SInv_quiet x); [apply quiet_ext_semit; exact I|] end.
      match goal with |- SInv (upd_reqC ?x _) => apply (SInv_core x); [constructor; reflexivity|] end.
      destruct I1 as [G1 G2 G3 G4 G5 G6 G7].
      assert (Q : forall d, qof (upd_qm s1 (a_set (qm s1) c (l ++ [r]))) d = if c =? d then Some (l ++ [r]) else qof s1 d).
      { intros d. unfold qof. cbn. rewrite aget_set. reflexivity. }
      constructor.
      * intros d. change (pendof (upd_qm s1 (a_set (qm s1) c (l ++ [r]))) d) with (pendof s1 d). rewrite Q.
        destruct (c =? d) eqn:Ed; [|apply G1]. apply Z.eqb_eq in Ed. subst d. intros X. destruct (G1 c X) as [t Ht].
        rewrite Eq in Ht. inversion Ht; subst l. exists (t ++ [r]). reflexivity.
      * intros d l0. rewrite Q. destruct (c =? d); [|apply G2]. intros X. inversion X; subst l0.
        apply Forall_app. split; [apply (G2 c); exact Eq|constructor; [exact Hw|constructor]].
      * exact G3.
      * intros d. rewrite Q. change (conns (upd_qm s1 (a_set (qm s1) c (l ++ [r])))) with (conns s1).
        destruct (c =? d) eqn:Ed; [|apply G4]. apply Z.eqb_eq in Ed. subst d. intros _. apply G4. congruence.
      * cbn. intros X. congruence.
      * exact G6.
      * exact G7.
    + match goal with |- SInv (semit ?x _) => apply (SInv_quiet x); [apply quiet_ext_semit; exact I|] end.
      apply (SInv_core s1); [apply set_cbs_core|exact I1].
  - (* SReply *)
    destruct (mem c (conns s) && negb (r =? 0) && (pendof s c =? r)) eqn:E; [|exact Hi].
    apply andb_true_iff in E as [E E3]. apply andb_true_iff in E as [_ E2].
    apply Z.eqb_eq in E3. apply negb_true_iff, Z.eqb_neq in E2.
    assert (X : pendof s c <> 0) by congruence. destruct (H1 c X) as [t Ht]. rewrite E3 in Ht.
    apply SInv_cc with (t := t); assumption.
  - (* TimerTok *)
    destruct (running s); [|exact Hi]. apply (SInv_core s); [constructor; reflexivity|exact Hi].
  - (* SNetFail *)
    apply (SInv_core s); [constructor; reflexivity|exact Hi].
  - (* SPumpStop *)
    destruct (pumpAlive s && stopping s && negb (pumpStuck s)) eqn:E; [|exact Hi].
    apply andb_true_iff in E as [E _]. apply andb_true_iff in E as [_ E].
    pose proof (H5 (H6 E)) as N.
    constructor; cbn.
    + intros d X. destruct (H1 d X) as [t Ht]. rewrite N in Ht. discriminate.
    + intros d l X. discriminate.
    + exact H3.
    + intros d X. congruence.
    + intros _ d. reflexivity.
    + discriminate.
    + reflexivity.
  - (* SPumpReq *)
    destruct (pumpAlive s && negb (pumpStuck s)); [|exact Hi].
    destruct (reqC s) as [|c rest] eqn:Er; [exact Hi|]. cbv zeta.
    set (s0 := upd_reqC s rest).
    set (s1 := if mem c (removed s0) then upd_ctxm (upd_removed s0 (del c (removed s0))) (a_del (ctxm s0) c) else s0).
    assert (I1 : SInv s1) by (apply (SInv_core s); [unfold s1; destruct (mem c (removed s0)); constructor; reflexivity|exact Hi]).
    destruct (qof s1 c) eqn:Eq.
    + apply SInv_stail; [|right; reflexivity]. 
      match goal with |- SInv (upd_loc ?x _ _ _) => apply (SInv_core x); [constructor; reflexivity|exact I1] end.
    + match goal with |- SInv (upd_loc ?x _ _ _) => apply (SInv_core x); [constructor; reflexivity|] end.
      apply (SInv_core s1); [constructor; reflexivity|exact I1].
  - (* SPumpReady *)
    destruct (pumpAlive s && negb (pumpStuck s)); [|exact Hi].
    destruct (readyC s) as [|c rest] eqn:Er; [exact Hi|]. cbv zeta.
    set (s1 := upd_readyC s rest).
    assert (I1 : SInv s1) by (apply (SInv_core s); [constructor; reflexivity|exact Hi]).
    destruct (negb (pendof s1 c =? 0)).
    + apply (SInv_core s1); [constructor; reflexivity|exact I1].
    + assert (I2 : SInv (ctx_deactivate s1 c)) by (apply (SInv_core s1); [apply ctx_deactivate_core|exact I1]).
      destruct (qof (ctx_deactivate s1 c) c).
      * apply SInv_stail; [|right; reflexivity].
        match goal with |- SInv (upd_loc ?x _ _ _) => apply (SInv_core x); [constructor; reflexivity|exact I2] end.
      * apply SInv_stail; [|left; reflexivity].
        match goal with |- SInv (upd_loc ?x _ _ _) => apply (SInv_core x); [constructor; reflexivity|exact I2] end.
  - (* SPumpTimer *)
    destruct (pumpAlive s && negb (pumpStuck s)); [|exact Hi].
    destruct (timerC s) as [|c rest] eqn:Er; [exact Hi|]. cbv zeta.
    set (s1 := upd_loc (upd_timerC s rest) false c None).
    assert (I1 : SInv s1) by (apply (SInv_core s); [constructor; reflexivity|exact Hi]).
    set (s2 := ctx_deactivate s1 c).
    assert (I2 : SInv s2) by (apply (SInv_core s1); [apply ctx_deactivate_core|exact I1]).
    assert (L2 : curQ s2 = None). { unfold s2, ctx_deactivate. destruct (ctx_active s1 c); reflexivity. }
    destruct (negb (pendof s2 c =? 0)) eqn:Ep.
    + apply negb_true_iff, Z.eqb_neq in Ep. destruct (i_head s2 I2 c Ep) as [t Ht]. rewrite Ht.
      apply SInv_stail.
      * apply SInv_cc with (t := t); [exact I2|exact Ht|reflexivity].
      * left. destruct (cc_loc true s2 c (pendof s2 c) 2) as [X _]. rewrite X. exact L2.
    + apply SInv_stail; [exact I2|left; exact L2].
Qed.

Lemma srun_SInv ls : forall s, Forall wf_slab ls -> SInv s -> SInv (srun ls s).
Proof.
  induction ls as [|l ls IH]; intros s Hw Hi; [exact Hi|].
  inversion Hw; subst. cbn. apply IH; [assumption|apply sstep_SInv; assumption].
Qed.

Theorem s_S1_invariant : forall cap d ls, Forall wf_slab ls -> SInv (srun ls (sinit cap d)).
Proof. intros cap d ls Hw. apply srun_SInv; [exact Hw|apply SInv_init]. Qed.

(* ---- what acceptance by the monitor means ---- *)
Lemma outst_app_some c newer tr : outst c (newer ++ tr) <> None -> outst c tr <> None.
Proof.
  induction newer as [|e newer IH]; [auto|]. cbn [app outst]. intros H. apply IH.
  destruct (outst c (newer ++ tr)); [discriminate|exact H].
Qed.

Lemma outst_write_when_idle c r tr : outst c (SWr c r :: tr) <> None -> outst c tr = Some 0.
Proof.
  cbn [outst]. destruct (outst c tr) as [o|]; [|congruence]. cbn [app_ev]. rewrite Z.eqb_refl.
  destruct (o =? 0) eqn:E; [apply Z.eqb_eq in E; subst; reflexivity|congruence].
Qed.

Lemma outst_conclusion_matches c r k tr : outst c (SConc c r k :: tr) <> None -> outst c tr = Some r.
Proof.
  cbn [outst]. destruct (outst c tr) as [o|]; [|congruence]. cbn [app_ev]. rewrite Z.eqb_refl.
  destruct (o =? r) eqn:E; [apply Z.eqb_eq in E; subst; reflexivity|congruence].
Qed.

(** C02, server, every schedule: whenever a CALL is handed to the network for client [c], no CALL of [c] is outstanding
    (all earlier ones were concluded, or their session ended) ... *)
Theorem s_write_only_when_idle_S1 : forall cap d ls c r newer older, Forall wf_slab ls ->
  str (srun ls (sinit cap d)) = newer ++ SWr c r :: older -> outst c older = Some 0.
Proof.
  intros cap d ls c r newer older Hw E. pose proof (i_mon _ (s_S1_invariant cap d ls Hw) c) as M. rewrite E in M.
  apply (outst_write_when_idle c r). apply (outst_app_some c newer). congruence.
Qed.

(** ... every conclusion by the OCPP-J layer (reply, timeout, failed write) concludes the CALL outstanding at that
    moment, never another one and never twice ... *)
Theorem s_conclusion_matches_outstanding_S1 : forall cap d ls c r k newer older, Forall wf_slab ls ->
  str (srun ls (sinit cap d)) = newer ++ SConc c r k :: older -> outst c older = Some r.
Proof.
  intros cap d ls c r k newer older Hw E. pose proof (i_mon _ (s_S1_invariant cap d ls Hw) c) as M. rewrite E in M.
  apply (outst_conclusion_matches c r k). apply (outst_app_some c newer). congruence.
Qed.

(** ... and the outstanding CALL is the dispatcher's pending id, which is the head of that client's queue (FIFO) *)
Theorem s_outstanding_is_pending_head_S1 : forall cap d ls c, Forall wf_slab ls ->
  let s := srun ls (sinit cap d) in
  outst c (str s) = Some (pendof s c) /\ (pendof s c <> 0 -> exists t, qof s c = Some (pendof s c :: t)).
Proof. intros cap d ls c Hw s. pose proof (s_S1_invariant cap d ls Hw) as Hi. split; [apply i_mon|apply i_head]; exact Hi. Qed.

(** C07 / C16, server, every schedule: the pump never dereferences an empty queue (never panics, never sticks) *)
Theorem s_pump_never_stuck_S1 : forall cap d ls, Forall wf_slab ls -> pumpStuck (srun ls (sinit cap d)) = false.
Proof. intros. apply i_ns. apply s_S1_invariant; assumption. Qed.

(** C11 / C16, server, every schedule: a stopped dispatcher holds no queue, a queue belongs to a connected client *)
Theorem s_queues_belong_to_sessions_S1 : forall cap d ls, Forall wf_slab ls ->
  let s := srun ls (sinit cap d) in
  (running s = false -> forall c, qof s c = None) /\ (forall c, qof s c <> None -> mem c (conns s) = true).
Proof. intros cap d ls Hw s. pose proof (s_S1_invariant cap d ls Hw) as Hi. split; [apply i_run|apply i_q]; exact Hi. Qed.

(** non-vacuity: two clients; a reply, a timeout followed by the next request, a failed write, a disconnection with a
    request outstanding and the reconnection -- 6 CALLs written, the monitor accepts, the last one is outstanding *)
Example s_S1_demo :
  let ls := [SStart; Connect 1; Connect 2; SSend 1 11 true; SSend 1 12 true; SSend 2 21 true; SPumpReq; SPumpReq; SPumpReq;
             SReply 1 11 0; SPumpReady; TimerTok 1; SPumpTimer; SPumpReady; SNetFail 2 true; SSend 2 22 true; SReply 2 21 0; SPumpReq; SPumpReady;
             SPumpReady; SSend 1 13 true; SPumpReq; Disconnect 1; SPumpReq; Connect 1; SSend 1 14 true; SPumpReq] in
  let s := srun ls (sinit 0 true) in
  Forall wf_slab ls /\
  map (fun e => match e with SWr c r => r | _ => 0 end) (filter (fun e => match e with SWr _ _ => true | _ => false end) (rev (str s))) = [11; 21; 12; 22; 13; 14] /\
  outst 1 (str s) = Some 14 /\ outst 2 (str s) = Some 0.
Proof. cbv zeta. split; [repeat constructor; discriminate|]. vm_compute. repeat split; reflexivity. Qed.

(* back to the default for the files that unfold it *)
Strategy 0 [on_disconnected].
