(** M3: the websocket server's connection registry (ws/server.go: connections map under connMutex, wsHandler's
    existence check + insert, handleDisconnect's delete) with the lifecycle callbacks, one label per handshake /
    connection end / API call.  Connections are numbered in the order of their (passing) handshakes. *)
From Coq Require Import List Bool ZArith Lia.
Import ListNotations.
From Verif Require Import Base.Prelude M1.Containers.

Inductive rev_ :=
| RConnected (id conn : Z)       (* new-client callback for connection conn of id *)
| RDisconnected (id conn : Z)    (* disconnected callback *)
| RRefused (id conn : Z)         (* duplicate id: close 1008, no callback *)
| RWrite (id : Z) (ok : bool).

Record reg := { live : list (Z * Z);      (* id -> connection number *)
                next : Z;
                rtr : list rev_;          (* newest first *)
                halted : bool }.          (* Server.Stop was called: no further handshakes *)

Definition reg0 : reg := Build_reg [] 1 [] false.

Inductive rlab :=
| RConnect (id : Z)          (* a handshake that passes auth / check / origin / negotiation *)
| REnd (id : Z)              (* the live connection of id ends: client close, TCP drop or StopConnection *)
| RSend (id : Z)             (* Server.Write(id, ...) *)
| RStop.                     (* Server.Stop: every connection is closed *)

Definition rstep (l : rlab) (s : reg) : reg :=
  match l with
  | RConnect id =>
      if halted s then s else
      match a_get (live s) id with
      | Some _ => Build_reg (live s) (next s + 1) (RRefused id (next s) :: rtr s) false
      | None => Build_reg (a_set (live s) id (next s)) (next s + 1) (RConnected id (next s) :: rtr s) false
      end
  | REnd id =>
      match a_get (live s) id with
      | Some c => Build_reg (a_del (live s) id) (next s) (RDisconnected id c :: rtr s) (halted s)
      | None => s
      end
  | RSend id => Build_reg (live s) (next s) (RWrite id (match a_get (live s) id with Some _ => true | None => false end) :: rtr s) (halted s)
  | RStop => Build_reg [] (next s) (List.app (rev (map (fun kv => RDisconnected (fst kv) (snd kv)) (live s))) (rtr s)) true
  end.

Definition rrun (ls : list rlab) (s : reg) : reg := fold_left (fun s l => rstep l s) ls s.

(* ---- observables ---- *)
Definition renc (e : rev_) : list Z :=
  match e with
  | RConnected id _ => [1; id] | RDisconnected id _ => [2; id] | RRefused id _ => [3; id] | RWrite id ok => [4; id; bool_z ok]
  end.

Definition rnew (before after : reg) : list rev_ := rev (firstn (length (rtr after) - length (rtr before)) (rtr after)).

Fixpoint lexle2 (a b : list Z) : bool :=
  match a, b with
  | [], _ => true | _, [] => false
  | x :: a', y :: b' => if x <? y then true else if y <? x then false else lexle2 a' b'
  end.
Fixpoint ins2 (x : list Z) (l : list (list Z)) : list (list Z) :=
  match l with [] => [x] | y :: r => if lexle2 x y then x :: l else y :: ins2 x r end.

(** per label: -1, the new events (sorted: Stop reports in map order), then which of the ids 1..3 the server reports as connected *)
Fixpoint rrun_obs (ls : list rlab) (s : reg) : list Z :=
  match ls with
  | [] => [-2]
  | l :: r =>
      let s' := rstep l s in
      (-1 :: concat (fold_right ins2 [] (map renc (rnew s s')))) ++
      map (fun id => bool_z (match a_get (live s') id with Some _ => true | None => false end)) [1; 2; 3] ++
      rrun_obs r s'
  end.

Fixpoint dec_rlabs (fuel : nat) (l : list Z) : list rlab :=
  match fuel with O => [] | S f =>
    match l with
    | 1 :: id :: r => RConnect id :: dec_rlabs f r
    | 2 :: id :: r => REnd id :: dec_rlabs f r
    | 3 :: id :: r => REnd id :: dec_rlabs f r
    | 4 :: id :: r => REnd id :: dec_rlabs f r
    | 5 :: id :: r => RSend id :: dec_rlabs f r
    | 6 :: r => RStop :: dec_rlabs f r
    | _ => []
    end
  end.

(** entry: labels 1 connect, 2 client close, 3 TCP drop, 4 StopConnection, 5 write, 6 server stop *)
Definition c13_entry : entry := fun inp => rrun_obs (dec_rlabs (length inp) inp) reg0.
