(** M3: admission of a websocket connection by ws.server.wsHandler, as a pure function of the server
    configuration and the client's handshake, in the order of the Go code: sub-protocol negotiation, basic auth,
    check-client handler, upgrade (origin check), "no negotiated protocol" close, duplicate id close, accept. *)
From Coq Require Import List Bool ZArith Lia.
Import ListNotations.
From Verif Require Import Base.Prelude.

(** protocols, credentials and ids are opaque integers *)
Record cfg := {
  supported : list Z;                 (* upgrader.Subprotocols *)
  auth : option (Z -> bool);          (* basic-auth handler: accepted credentials *)
  check : option (Z -> bool);         (* check-client handler on the id *)
  origin_policy : Z                   (* 0 gorilla default (same origin), 1 handler allows all, 2 handler denies all *)
}.

Record hs := {
  requested : list Z;                 (* Sec-WebSocket-Protocol of the client, in order *)
  creds : option Z;                   (* basic-auth credentials present? *)
  cid : Z;
  origin : Z;                         (* 0 no Origin header, 1 same origin, 2 other origin *)
  dup : bool                          (* the id is currently connected *)
}.

Inductive outcome :=
| Accepted (p : Z)
| Http401            (* auth or check-client failed *)
| Http403            (* origin not allowed *)
| Close1002          (* upgraded, then closed: no protocol could be negotiated *)
| Close1008.         (* upgraded, then closed: duplicate id *)

Fixpoint negotiate (sup req : list Z) : option Z :=
  match req with
  | [] => None
  | p :: r => match sup with
              | [] => Some p
              | _ => if existsb (Z.eqb p) sup then Some p else negotiate sup r
              end
  end.

Definition auth_ok (c : cfg) (h : hs) : bool :=
  match auth c with
  | None => true
  | Some f => match creds h with Some cr => f cr | None => false end
  end.

Definition check_ok (c : cfg) (h : hs) : bool := match check c with None => true | Some f => f (cid h) end.

Definition origin_ok (c : cfg) (h : hs) : bool :=
  if (origin_policy c =? 1)%Z then true
  else if (origin_policy c =? 2)%Z then false
  else negb (origin h =? 2)%Z.

Definition admission (c : cfg) (h : hs) : outcome :=
  if negb (auth_ok c h) then Http401
  else if negb (check_ok c h) then Http401
  else if negb (origin_ok c h) then Http403
  else match negotiate (supported c) (requested h) with
       | None => Close1002
       | Some p => if dup h then Close1008 else Accepted p
       end.

(** callbacks: the new-client callback (and later message callbacks) exist only for an accepted connection *)
Definition callbacks (o : outcome) : nat := match o with Accepted _ => 1%nat | _ => 0%nat end.

(* ------------------------------------------------------------------ *)

Theorem admission_iff : forall c h p,
  admission c h = Accepted p <->
  auth_ok c h = true /\ check_ok c h = true /\ origin_ok c h = true /\ negotiate (supported c) (requested h) = Some p /\ dup h = false.
Proof.
  intros c h p. unfold admission.
  destruct (auth_ok c h); cbn; [|split; [discriminate|intros (H & _); discriminate]].
  destruct (check_ok c h); cbn; [|split; [discriminate|intros (_ & H & _); discriminate]].
  destruct (origin_ok c h); cbn; [|split; [discriminate|intros (_ & _ & H & _); discriminate]].
  destruct (negotiate (supported c) (requested h)) as [q|]; [|split; [discriminate|intros (_ & _ & _ & H & _); discriminate]].
  destruct (dup h); split; try discriminate.
  - intros (_ & _ & _ & _ & H); discriminate.
  - intros H. inversion H. auto.
  - intros (_ & _ & _ & H & _). inversion H. reflexivity.
Qed.

Theorem refused_no_callback : forall c h, (forall p, admission c h <> Accepted p) -> callbacks (admission c h) = 0%nat.
Proof. intros c h H. destruct (admission c h); try reflexivity. exfalso. eapply H. reflexivity. Qed.

(** what "a sub-protocol can be negotiated" means *)
Theorem negotiate_some : forall sup req p, negotiate sup req = Some p ->
  In p req /\ (sup = [] \/ In p sup).
Proof.
  intros sup req. induction req as [|q r IH]; intros p H; [discriminate|].
  cbn in H. destruct sup as [|s sup'].
  - inversion H. subst. split; [left; reflexivity|left; reflexivity].
  - destruct (existsb (Z.eqb q) (s :: sup')) eqn:E.
    + inversion H. subst. split; [left; reflexivity|right].
      apply existsb_exists in E as (x & Hx & Ex). apply Z.eqb_eq in Ex. subst. exact Hx.
    + destruct (IH p H) as [I1 I2]. split; [right; exact I1|exact I2].
Qed.

Theorem negotiate_none : forall sup req, negotiate sup req = None ->
  req = [] \/ (sup <> [] /\ forall p, In p req -> ~ In p sup).
Proof.
  intros sup req. induction req as [|q r IH]; intros H; [left; reflexivity|]. right.
  cbn in H. destruct sup as [|s sup']; [discriminate|]. split; [discriminate|].
  destruct (existsb (Z.eqb q) (s :: sup')) eqn:E; [discriminate|].
  intros p [<-|Hp] Hin.
  - assert (X : existsb (Z.eqb q) (s :: sup') = true) by (apply existsb_exists; exists q; split; [exact Hin|apply Z.eqb_refl]). congruence.
  - destruct (IH H) as [->|[_ I]]; [contradiction|]. exact (I p Hp Hin).
Qed.

(** it is the first requested protocol that qualifies *)
Theorem negotiate_first : forall sup pre p post,
  sup <> [] -> In p sup -> (forall q, In q pre -> ~ In q sup) -> negotiate sup (pre ++ p :: post) = Some p.
Proof.
  intros sup pre p post Hs Hp. induction pre as [|q pre IH]; intros Hpre; cbn.
  - destruct sup as [|s sup']; [congruence|].
    assert (X : existsb (Z.eqb p) (s :: sup') = true) by (apply existsb_exists; exists p; split; [exact Hp|apply Z.eqb_refl]).
    rewrite X. reflexivity.
  - destruct sup as [|s sup']; [congruence|].
    destruct (existsb (Z.eqb q) (s :: sup')) eqn:E.
    + apply existsb_exists in E as (x & Hx & Ex). apply Z.eqb_eq in Ex. subst. exfalso. exact (Hpre x (or_introl eq_refl) Hx).
    + apply IH. intros q' Hq'. apply Hpre. right. exact Hq'.
Qed.

(* ---- correspondence entry ---- *)
(** [n sup; sup...; auth set; check set; origin policy; n req; req...; creds (0 absent, 1 right, 2 wrong); id (1 ok, 2 rejected by the
     check handler); origin; dup]  -> [code; protocol]: 0 accepted p, 1 HTTP 401, 2 HTTP 403, 3 close 1002, 4 close 1008 *)
Definition c14_entry : entry := fun inp =>
  match inp with
  | ns :: r =>
      let sup := take_n ns r in
      match drop_n ns r with
      | a :: ch :: op :: nr :: r2 =>
          let req := take_n nr r2 in
          match drop_n nr r2 with
          | cr :: i :: o :: d :: _ =>
              let c := Build_cfg sup (if z_bool a then Some (fun x => (x =? 1)%Z) else None)
                                 (if z_bool ch then Some (fun x => (x =? 1)%Z) else None) op in
              let h := Build_hs req (if (cr =? 0)%Z then None else Some cr) i o (z_bool d) in
              match admission c h with
              | Accepted p => [0; 0]      (* which of the common protocols is echoed is the upgrader's choice: only admission is compared *)
              | Http401 => [1; 0] | Http403 => [2; 0] | Close1002 => [3; 0] | Close1008 => [4; 0]
              end
          | _ => [-1]
          end
      | _ => [-1]
      end
  | _ => [-1]
  end.
