(** M3: one websocket connection's outbound path (ws/websocket.go: WriteManual checks the connection under the lock and
    enqueues, the single write pump drains outQueue in order, cleanup closes the connection and drops what is still
    queued), handler-atomic: a writer's enqueue, one pump delivery, the close. *)
From Coq Require Import List Bool ZArith Lia.
Import ListNotations.
From Verif Require Import Base.Prelude.

Record conn := { copen : bool;
                 outq : list (Z * Z);         (* (writer, message) waiting in outQueue (and writers blocked on it), oldest first *)
                 delivered : list (Z * Z);    (* handed to the peer's message handler, oldest first *)
                 accepted : list (Z * Z);     (* Write returned nil, oldest first *)
                 refused : list (Z * Z) }.    (* Write returned an error *)

Definition conn0 : conn := Build_conn true [] [] [] [].

Inductive clab := CWrite (w m : Z) | CPump | CClose.

Definition cstep (l : clab) (s : conn) : conn :=
  match l with
  | CWrite w m =>
      if copen s then Build_conn true (outq s ++ [(w, m)]) (delivered s) (accepted s ++ [(w, m)]) (refused s)
      else Build_conn false (outq s) (delivered s) (accepted s) (refused s ++ [(w, m)])
  | CPump =>
      match outq s with
      | x :: r => if copen s then Build_conn true r (delivered s ++ [x]) (accepted s) (refused s) else s
      | [] => s
      end
  | CClose => Build_conn false [] (delivered s) (accepted s) (refused s)
  end.

Definition crun (ls : list clab) (s : conn) : conn := fold_left (fun s l => cstep l s) ls s.

(** messages of one writer, in order *)
Definition of_writer (w : Z) (l : list (Z * Z)) : list Z := map snd (filter (fun x => fst x =? w) l).

(* ------------------------------------------------------------------ *)

(** while open, everything accepted is delivered or still queued, in order; after a close the delivered sequence
    is a prefix of the accepted one (what was still queued is lost: a nil return of Write is not a delivery receipt) *)
Definition CInv (s : conn) : Prop :=
  (copen s = true -> accepted s = delivered s ++ outq s) /\
  (exists rest, accepted s = delivered s ++ rest) /\
  (copen s = false -> outq s = []).

Lemma cinv0 : CInv conn0.
Proof. repeat split; cbn; intros; try discriminate; try reflexivity. exists []. reflexivity. Qed.

Lemma cstep_inv l s : CInv s -> CInv (cstep l s).
Proof.
  intros (I1 & (rest & I2) & I3). destruct l; cbn [cstep].
  - destruct (copen s) eqn:E; cbn.
    + repeat split; cbn; intros; try discriminate.
      * rewrite (I1 eq_refl). rewrite app_assoc. reflexivity.
      * exists (outq s ++ [(w, m)]). rewrite (I1 eq_refl), app_assoc. reflexivity.
    + repeat split; cbn; intros; try discriminate; [exists rest; exact I2|apply I3; reflexivity].
  - destruct (outq s) as [|x r] eqn:Q.
    { repeat split; [rewrite Q; exact I1|exists rest; exact I2|rewrite Q; exact I3]. }
    destruct (copen s) eqn:E.
    2:{ specialize (I3 eq_refl). discriminate. }
    repeat split; cbn; intros; try discriminate.
    + rewrite (I1 eq_refl). rewrite <- app_assoc. reflexivity.
    + exists r. rewrite (I1 eq_refl). rewrite <- app_assoc. reflexivity.
  - repeat split; cbn; intros; try discriminate; try reflexivity. exists rest. exact I2.
Qed.

Lemma crun_inv ls : forall s, CInv s -> CInv (crun ls s).
Proof. induction ls as [|l ls IH]; intros s H; [exact H|]. cbn. apply IH. apply cstep_inv. exact H. Qed.

(** every schedule of writers, pump and close: the peer receives a prefix of the accepted messages, each exactly once, in order *)
Theorem delivered_prefix : forall ls, exists rest, accepted (crun ls conn0) = delivered (crun ls conn0) ++ rest.
Proof. intros ls. exact (proj1 (proj2 (crun_inv ls conn0 cinv0))). Qed.

(** ... so the messages of one writer arrive in the order it wrote them *)
Theorem per_writer_order : forall ls w, exists rest,
  of_writer w (accepted (crun ls conn0)) = of_writer w (delivered (crun ls conn0)) ++ rest.
Proof.
  intros ls w. destruct (delivered_prefix ls) as [rest H]. exists (of_writer w rest).
  unfold of_writer. rewrite H, filter_app, map_app. reflexivity.
Qed.

(** while the connection stays open nothing is lost: accepted = delivered ++ still queued *)
Theorem open_nothing_lost : forall ls, copen (crun ls conn0) = true ->
  accepted (crun ls conn0) = delivered (crun ls conn0) ++ outq (crun ls conn0).
Proof. intros ls. exact (proj1 (crun_inv ls conn0 cinv0)). Qed.

(** writing to a closed connection returns an error and enqueues nothing *)
Theorem write_closed_errors : forall s w m, copen s = false ->
  outq (cstep (CWrite w m) s) = outq s /\ accepted (cstep (CWrite w m) s) = accepted s /\
  refused (cstep (CWrite w m) s) = refused s ++ [(w, m)].
Proof. intros s w m H. cbn. rewrite H. cbn. auto. Qed.

(* ---- correspondence entry: [labels...]: 1 w m write, 2 drain (pump until empty), 3 close
        -> per write its result (1 ok / 0 error), then the delivered messages in order ---- *)
Fixpoint drain (fuel : nat) (s : conn) : conn :=
  match fuel with O => s | S f => match outq s with [] => s | _ => drain f (cstep CPump s) end end.

Fixpoint c15_run (fuel : nat) (l : list Z) (s : conn) (res : list Z) : list Z :=
  match fuel with
  | O => res
  | S f =>
      match l with
      | 1 :: w :: m :: r => let s' := cstep (CWrite w m) s in c15_run f r (drain (S (length (outq s'))) s') (res ++ [bool_z (copen s)])
      | 3 :: _ :: r => c15_run f r (cstep CClose s) res
      | _ => res ++ (-2 :: map snd (delivered s))
      end
  end.

(** the first integer names the direction (which endpoints are used): the model is the same for all *)
Definition c15_entry : entry := fun inp => c15_run (S (length inp)) (tl inp) conn0 [].
