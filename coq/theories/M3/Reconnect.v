(** M3: the websocket client's reconnection machine (ws/client.go: handleDisconnect, handleReconnection, Stop, Start)
    and the keep-alive deadline bookkeeping (ws/websocket.go: getReadTimeout, onPing / onPong / message extend the
    read deadline).  Time is an integer (milliseconds in the harness). *)
From Coq Require Import List Bool ZArith Lia.
Import ListNotations.
From Verif Require Import Base.Prelude.

Inductive phase :=
| Idle                          (* not connected, no reconnection loop *)
| Up                            (* connected *)
| Waiting (k : Z) (delay : Z).  (* reconnection loop: attempt number k is in flight (its back-off delay has elapsed, the abort
                                   channel was empty at that moment); delay = the back-off that preceded it *)

Inductive hev := HDisconnected (forced : bool) | HReconnected | HDial (k delay : Z).

Record rc := { ph : phase; token : bool;       (* a value sits in reconnectC *)
               halted : bool;                  (* Stop was called and Start has not been called since (repair of F26) *)
               wmin : Z; wrange : Z; wrepeat : Z;
               htr : list hev }.               (* newest first *)

Definition rc0 (mn rg rp : Z) : rc := Build_rc Idle false false mn rg rp [].

Inductive rlbl :=
| LStart                 (* Start succeeds *)
| LLose                  (* the connection is lost (error): server close frame, TCP reset, read deadline *)
| LDialFail (rnd : Z)    (* the dial in flight fails; rnd in [0, range] is the random part of the next delay. The loop then waits
                            for the next delay or the abort token, whichever is there, and dials again *)
| LDialOk                (* the dial in flight succeeds *)
| LStop.

Definition clamp (x lo hi : Z) : Z := Z.max lo (Z.min x hi).

Definition rcstep (l : rlbl) (s : rc) : rc :=
  let upd p t h tr := Build_rc p t h (wmin s) (wrange s) (wrepeat s) tr in
  match l with
  | LStart => match ph s with Idle => upd Up false false (htr s) | _ => s end     (* Start drains a stale abort token *)
  | LLose =>
      match ph s with
      | Up =>
          (* disconnected handler, then handleReconnection: an abort token already waiting ends the loop at once *)
          let tr := HDisconnected true :: htr s in
          if token s then upd Idle false (halted s) tr else upd (Waiting 1 (wmin s)) false (halted s) tr
      | _ => s
      end
  | LDialFail rnd =>
      match ph s with
      | Waiting k d =>
          if token s then upd Idle false (halted s) (HDial k d :: htr s)
          else let d' := if k <? wrepeat s then 2 * d + clamp rnd 0 (wrange s) else d in
               upd (Waiting (k + 1) d') false (halted s) (HDial k d :: htr s)
      | _ => s
      end
  | LDialOk =>
      match ph s with
      | Waiting k d =>
          (* a connection established after Stop was called is dropped at once: no handler, the loop ends *)
          if halted s then upd Idle (token s) true (HDial k d :: htr s)
          else upd Up (token s) false (HReconnected :: HDial k d :: htr s)
      | _ => s
      end
  | LStop =>
      match ph s with
      | Up => upd Idle (negb (token s)) true (HDisconnected false :: htr s)
      | _ => upd (ph s) (negb (token s)) true (htr s)
      end
  end.

Definition rcrun (ls : list rlbl) (s : rc) : rc := fold_left (fun s l => rcstep l s) ls s.

(* ------------------------------------------------------------------ *)

(** however many dials fail, the loop goes on: it has no exit other than success or the abort token *)
Theorem retries_forever : forall s k d rnd, ph s = Waiting k d -> token s = false ->
  exists d', ph (rcstep (LDialFail rnd) s) = Waiting (k + 1) d' /\ token (rcstep (LDialFail rnd) s) = false.
Proof.
  intros s k d rnd H Ht. unfold rcstep. rewrite H, Ht. eexists. split; reflexivity.
Qed.

Theorem retries_forever_n : forall n s k d rnds, ph s = Waiting k d -> token s = false -> length rnds = n ->
  exists d', ph (rcrun (map LDialFail rnds) s) = Waiting (k + Z.of_nat n) d' /\ token (rcrun (map LDialFail rnds) s) = false.
Proof.
  induction n as [|n IH]; intros s k d rnds H Ht Hl.
  - destruct rnds; [|discriminate]. exists d. cbn. rewrite Z.add_0_r. auto.
  - destruct rnds as [|r rnds]; [discriminate|]. cbn [map rcrun fold_left].
    destruct (retries_forever s k d r H Ht) as (d1 & H1 & T1).
    destruct (IH (rcstep (LDialFail r) s) (k + 1) d1 rnds H1 T1 ltac:(cbn in Hl; lia)) as (d2 & H2 & T2).
    exists d2. unfold rcrun in H2, T2. split; [|exact T2]. rewrite H2. f_equal. lia.
Qed.

(** the back-off: doubled (plus at most [range]) for the first [repeat] attempts, constant afterwards; never below the minimum *)
Theorem backoff_step : forall s k d rnd, ph s = Waiting k d -> token s = false -> 0 <= wrange s ->
  exists d', ph (rcstep (LDialFail rnd) s) = Waiting (k + 1) d' /\
             (k < wrepeat s -> 2 * d <= d' <= 2 * d + wrange s) /\ (wrepeat s <= k -> d' = d).
Proof.
  intros s k d rnd H Ht Hr. unfold rcstep. rewrite H, Ht. eexists. split; [reflexivity|].
  destruct (k <? wrepeat s) eqn:E.
  - apply Z.ltb_lt in E. split; [|lia]. intros _. unfold clamp. lia.
  - apply Z.ltb_ge in E. split; [lia|reflexivity].
Qed.

(** handlers: a reconnected notification is always preceded by the disconnected one of the same outage *)
Fixpoint ok_order (t : list hev) (down : bool) : bool :=     (* oldest first *)
  match t with
  | [] => true
  | HDisconnected _ :: r => ok_order r true
  | HReconnected :: r => down && ok_order r false
  | HDial _ _ :: r => down && ok_order r down
  end.

Definition down_of (p : phase) : bool := match p with Up => false | _ => true end.

(** a Stop issued while a dial is in flight: if that dial fails the loop ends and no further dial is made ... *)
Theorem stop_while_dialing_then_fail : forall s k d rnd, ph s = Waiting k d -> token s = false ->
  ph (rcstep (LDialFail rnd) (rcstep LStop s)) = Idle.
Proof.
  intros s k d rnd H Ht.
  assert (S1 : rcstep LStop s = Build_rc (Waiting k d) true true (wmin s) (wrange s) (wrepeat s) (htr s)).
  { unfold rcstep. rewrite H, Ht. reflexivity. }
  rewrite S1. reflexivity.
Qed.

(** ... and if that dial succeeds the fresh connection is dropped: the client stays unconnected and no reconnected
    notification is delivered (before the repair of F26 it ended up connected although Stop had been called) *)
Theorem stop_while_dialing_then_ok : forall s k d, ph s = Waiting k d ->
  ph (rcstep LDialOk (rcstep LStop s)) = Idle /\
  htr (rcstep LDialOk (rcstep LStop s)) = HDial k d :: htr s.
Proof.
  intros s k d H.
  assert (S1 : rcstep LStop s = Build_rc (Waiting k d) (negb (token s)) true (wmin s) (wrange s) (wrepeat s) (htr s)).
  { unfold rcstep. rewrite H. reflexivity. }
  rewrite S1. split; reflexivity.
Qed.

(** generally: from a Stop until the next Start no step makes the client connected *)
Theorem halted_never_up : forall l s, halted s = true -> ph s <> Up -> l <> LStart ->
  halted (rcstep l s) = true /\ ph (rcstep l s) <> Up.
Proof.
  intros l s Hh Hp Hl. destruct s as [p t h mn rg rp tr]. cbn in *. subst h.
  destruct l; try congruence; destruct p; cbn; try congruence;
    repeat match goal with |- context [if ?b then _ else _] => destruct b end; cbn;
    split; try reflexivity; try discriminate; try congruence.
Qed.

Theorem halted_never_up_run : forall ls s, halted s = true -> ph s <> Up -> ~ In LStart ls ->
  ph (rcrun ls s) <> Up.
Proof.
  induction ls as [|l ls IH]; intros s Hh Hp Hn; [exact Hp|].
  cbn [rcrun fold_left]. fold (rcrun ls (rcstep l s)).
  destruct (halted_never_up l s Hh Hp) as [H1 H2]; [intros E; apply Hn; left; exact E|].
  apply IH; [exact H1|exact H2|intros X; apply Hn; right; exact X].
Qed.

Theorem never_connected_after_stop : forall ls s, ~ In LStart ls -> ph (rcrun ls (rcstep LStop s)) <> Up.
Proof.
  intros ls s Hn. apply halted_never_up_run; [| |exact Hn]; unfold rcstep; destruct (ph s); cbn; congruence.
Qed.

(** once idle after a Stop, nothing but Start connects again *)
Theorem idle_stays_idle : forall s l, ph s = Idle -> l <> LStart -> ph (rcstep l s) = Idle.
Proof. intros s l H Hl. destruct l; cbn; rewrite ?H; try reflexivity. congruence. Qed.

(** the stale-token defect (F7) is absent: a client stopped while connected and started again reconnects after a loss *)
Theorem restart_reconnects : forall mn rg rp,
  ph (rcrun [LStart; LStop; LStart; LLose] (rc0 mn rg rp)) = Waiting 1 mn.
Proof. reflexivity. Qed.

(** generally: after Start the client is connected with no abort token pending, so the next loss starts the reconnection loop *)
Theorem start_is_fresh : forall s, ph s = Idle ->
  ph (rcstep LStart s) = Up /\ token (rcstep LStart s) = false /\
  ph (rcstep LLose (rcstep LStart s)) = Waiting 1 (wmin s).
Proof.
  intros s H.
  assert (S1 : rcstep LStart s = Build_rc Up false false (wmin s) (wrange s) (wrepeat s) (htr s)) by (unfold rcstep; rewrite H; reflexivity).
  rewrite S1. cbn. auto.
Qed.

(* ---- keep-alive ---- *)
(** read deadline = last inbound activity (message, ping, pong) + wait; 0 = no deadline *)
Record ka := { wait : Z; deadline : Z; alive : bool; tnow : Z }.
Inductive kalbl := KActivity | KTime (dt : Z).
Definition kastep (l : kalbl) (s : ka) : ka :=
  match l with
  | KActivity => if alive s then Build_ka (wait s) (if wait s =? 0 then 0 else tnow s + wait s) true (tnow s) else s
  | KTime dt =>
      let t := tnow s + Z.max 0 dt in
      if alive s && negb (deadline s =? 0) && (deadline s <=? t) then Build_ka (wait s) (deadline s) false t
      else Build_ka (wait s) (deadline s) (alive s) t
  end.

(** a silent peer is detected by the deadline, i.e. within [wait] of its last sign of life *)
Theorem dead_peer_detected : forall s dt, alive s = true -> wait s > 0 -> 0 <= tnow s -> deadline s = tnow s + wait s ->
  wait s <= dt -> alive (kastep (KTime dt) s) = false.
Proof.
  intros s dt Ha Hw Hn Hd Hdt. unfold kastep. rewrite Ha.
  replace (deadline s =? 0) with false by (symmetry; apply Z.eqb_neq; lia).
  replace (deadline s <=? tnow s + Z.max 0 dt) with true by (symmetry; apply Z.leb_le; lia). reflexivity.
Qed.

(** a peer that shows a sign of life more often than every [wait] is never disconnected *)
Theorem healthy_stays : forall s dt, alive s = true -> 0 <= tnow s -> deadline s = tnow s + wait s -> 0 <= dt < wait s ->
  alive (kastep KActivity (kastep (KTime dt) s)) = true /\
  deadline (kastep KActivity (kastep (KTime dt) s)) = tnow (kastep KActivity (kastep (KTime dt) s)) + wait s.
Proof.
  intros s dt Ha Hn Hd Hdt.
  assert (S1 : kastep (KTime dt) s = Build_ka (wait s) (deadline s) true (tnow s + Z.max 0 dt)).
  { unfold kastep. rewrite Ha.
    replace (deadline s <=? tnow s + Z.max 0 dt) with false by (symmetry; apply Z.leb_gt; lia).
    rewrite andb_false_r. reflexivity. }
  rewrite S1. unfold kastep. cbn [alive wait tnow deadline].
  replace (wait s =? 0) with false by (symmetry; apply Z.eqb_neq; lia). cbn. auto.
Qed.

(* ---- correspondence entry: [min; range; repeat; labels...] 1 start, 2 lose, 3 dial fails, 4 dial ok, 5 stop
        -> handler trace (1 disconnected forced, 2 disconnected by stop, 3 reconnected), then -2, number of dials, final phase ---- *)
Fixpoint dec_rl (l : list Z) : list rlbl :=
  match l with
  | 1 :: r => LStart :: dec_rl r | 2 :: r => LLose :: dec_rl r | 3 :: r => LDialFail 0 :: dec_rl r
  | 4 :: r => LDialOk :: dec_rl r | 5 :: r => LStop :: dec_rl r
  | 6 :: r => LLose :: dec_rl r | 7 :: r => LLose :: dec_rl r      (* the server ends the connection with a close frame *)
  | _ => []
  end.

Definition c17_entry : entry := fun inp =>
  match inp with
  | mn :: rg :: rp :: ls =>
      let s := rcrun (dec_rl ls) (rc0 mn rg rp) in
      let t := rev (htr s) in
      concat (map (fun e => match e with HDisconnected true => [1] | HDisconnected false => [2] | HReconnected => [3] | HDial _ _ => [] end) t)
      ++ [-2; zlen (filter (fun e => match e with HDial _ _ => true | _ => false end) t);
          match ph s with Idle => 0 | Up => 1 | Waiting _ _ => 2 end]
  | _ => [-1]
  end.
