(** Proofs about the connection registry model. *)
From Coq Require Import List Bool ZArith Lia.
Import ListNotations.
From Verif Require Import Base.Prelude M1.Containers M1.ServerProofs M3.Registry.

(** events of one connection number, oldest first *)
Definition of_conn (c : Z) (e : rev_) : bool :=
  match e with RConnected _ c' | RDisconnected _ c' | RRefused _ c' => c' =? c | RWrite _ _ => false end.
Definition hist (c : Z) (s : reg) : list rev_ := rev (filter (of_conn c) (rtr s)).

Lemma a_get_in (m : list (Z * Z)) k v : a_get m k = Some v -> In (k, v) m.
Proof.
  induction m as [|[k' v'] m IH]; cbn; [discriminate|]. destruct (k' =? k) eqn:E.
  - intros H. inversion H. apply Z.eqb_eq in E. subst. left. reflexivity.
  - intros H. right. apply IH. exact H.
Qed.

Lemma a_get_none_notin (m : list (Z * Z)) k : a_get m k = None -> ~ In k (map fst m).
Proof.
  induction m as [|[k' v'] m IH]; cbn; [tauto|]. destruct (k' =? k) eqn:E; [discriminate|].
  intros H [X|X]; [apply Z.eqb_neq in E; congruence|exact (IH H X)].
Qed.

Theorem unique_live : forall s id c1 c2, NoDup (map fst (live s)) -> In (id, c1) (live s) -> In (id, c2) (live s) -> c1 = c2.
Proof.
  intros s id c1 c2. induction (live s) as [|[k v] m IH]; cbn; [tauto|].
  intros Hn [H1|H1] [H2|H2]; inversion Hn; subst.
  - congruence.
  - inversion H1; subst. exfalso. apply H3. change id with (fst (id, c2)). apply in_map. exact H2.
  - inversion H2; subst. exfalso. apply H3. change id with (fst (id, c1)). apply in_map. exact H1.
  - apply IH; assumption.
Qed.

(** a second connection on an id that is still connected is refused, gets no callback, and the existing one is untouched *)
Theorem dup_refused : forall s id c, halted s = false -> a_get (live s) id = Some c ->
  live (rstep (RConnect id) s) = live s /\ rtr (rstep (RConnect id) s) = RRefused id (next s) :: rtr s.
Proof. intros s id c Hh H. cbn. rewrite Hh, H. cbn. auto. Qed.

(** Write succeeds exactly for registered ids *)
Theorem write_iff_registered : forall s id,
  rtr (rstep (RSend id) s) = RWrite id (match a_get (live s) id with Some _ => true | None => false end) :: rtr s /\
  live (rstep (RSend id) s) = live s.
Proof. intros. cbn. auto. Qed.

(* ------------------------------------------------------------------ *)
(** * lifecycle of every connection, for every sequence of events *)

(** the events of connection number c, newest first *)
Definition h (c : Z) (s : reg) : list rev_ := filter (of_conn c) (rtr s).

Lemma in_a_set_new (m : list (Z * Z)) k0 v0 k v : a_get m k0 = None ->
  (In (k, v) (a_set m k0 v0) <-> In (k, v) m \/ (k, v) = (k0, v0)).
Proof.
  induction m as [|[k' v'] m IH]; cbn; intros H.
  - split; [intros [E|[]]; right; congruence|intros [[]|E]; left; congruence].
  - destruct (k' =? k0) eqn:E; [discriminate|]. cbn. rewrite (IH H). tauto.
Qed.

Lemma in_a_del (m : list (Z * Z)) k0 k v : In (k, v) (a_del m k0) <-> In (k, v) m /\ k <> k0.
Proof.
  induction m as [|[k' v'] m IH]; cbn; [tauto|].
  destruct (k' =? k0) eqn:E.
  - apply Z.eqb_eq in E. subst k'. rewrite IH. split; [tauto|]. intros [[X|X] N]; [inversion X; congruence|tauto].
  - apply Z.eqb_neq in E. cbn. rewrite IH. split.
    + intros [X|X]; [inversion X; subst; tauto|tauto].
    + tauto.
Qed.

Lemma map_fst_a_set_new (m : list (Z * Z)) k0 v0 : a_get m k0 = None -> map fst (a_set m k0 v0) = (map fst m ++ [k0])%list.
Proof. induction m as [|[k' v'] m IH]; cbn; intros H; [reflexivity|]. destruct (k' =? k0); [discriminate|]. cbn. rewrite IH by exact H. reflexivity. Qed.

Lemma map_snd_a_set_new (m : list (Z * Z)) k0 v0 : a_get m k0 = None -> map snd (a_set m k0 v0) = (map snd m ++ [v0])%list.
Proof. induction m as [|[k' v'] m IH]; cbn; intros H; [reflexivity|]. destruct (k' =? k0); [discriminate|]. cbn. rewrite IH by exact H. reflexivity. Qed.

Lemma nodup_app_single {A} (l : list A) x : NoDup l -> ~ In x l -> NoDup (l ++ [x]).
Proof.
  induction l as [|a l IH]; cbn; intros Hn Hx; [constructor; [tauto|constructor]|].
  inversion Hn; subst. constructor.
  - intros Hin. apply in_app_or in Hin as [Hin|[Hin|[]]]; [tauto|subst; tauto].
  - apply IH; tauto.
Qed.

Lemma nodup_map_del_fst (m : list (Z * Z)) k0 : NoDup (map fst m) -> NoDup (map fst (a_del m k0)).
Proof.
  induction m as [|[k' v'] m IH]; cbn; intros H; [constructor|]. inversion H; subst.
  destruct (k' =? k0); [apply IH; assumption|]. cbn. constructor; [|apply IH; assumption].
  intros Hin. apply in_map_iff in Hin as ([k v] & E & Hin). cbn in E. subst k. apply in_a_del in Hin as [Hin _].
  apply H2. change k' with (fst (k', v)). apply in_map. exact Hin.
Qed.

Lemma nodup_map_del_snd (m : list (Z * Z)) k0 : NoDup (map snd m) -> NoDup (map snd (a_del m k0)).
Proof.
  induction m as [|[k' v'] m IH]; cbn; intros H; [constructor|]. inversion H; subst.
  destruct (k' =? k0); [apply IH; assumption|]. cbn. constructor; [|apply IH; assumption].
  intros Hin. apply in_map_iff in Hin as ([k v] & E & Hin). cbn in E. subst v. apply in_a_del in Hin as [Hin _].
  apply H2. change v' with (snd (k, v')). apply in_map. exact Hin.
Qed.

Inductive ended (c : Z) (l : list rev_) : Prop :=
| E_none : l = [] -> ended c l
| E_refused id : l = [RRefused id c] -> ended c l
| E_done id : l = [RDisconnected id c; RConnected id c] -> ended c l.

Record RInv (s : reg) : Prop := {
  ri_fst : NoDup (map fst (live s));
  ri_snd : NoDup (map snd (live s));
  ri_live : forall id c, In (id, c) (live s) -> h c s = [RConnected id c] /\ c < next s;
  ri_dead : forall c, (forall id, ~ In (id, c) (live s)) -> ended c (h c s);
  ri_fresh : forall c, next s <= c -> h c s = [] }.

Lemma RInv0 : RInv reg0.
Proof. constructor; cbn; try constructor; intros; try contradiction; try reflexivity. Qed.

Lemma filter_disc_map c (m : list (Z * Z)) : NoDup (map snd m) ->
  filter (of_conn c) (rev (map (fun kv => RDisconnected (fst kv) (snd kv)) m)) =
    match find (fun kv => snd kv =? c) m with Some kv => [RDisconnected (fst kv) c] | None => [] end.
Proof.
  induction m as [|[k v] m IH]; intros Hn; [reflexivity|]. inversion Hn; subst.
  cbn [map rev fst snd find]. rewrite filter_app. cbn [filter of_conn]. rewrite (IH H2).
  destruct (v =? c) eqn:E.
  - apply Z.eqb_eq in E. subst v.
    assert (X : find (fun kv : Z * Z => snd kv =? c) m = None).
    { clear IH Hn H2. induction m as [|[k' v'] m IHm]; [reflexivity|]. cbn.
      destruct (v' =? c) eqn:E2.
      - apply Z.eqb_eq in E2. subst v'. exfalso. apply H1. left. reflexivity.
      - apply IHm. intros Hin. apply H1. right. exact Hin. }
    rewrite X. reflexivity.
  - rewrite app_nil_r. reflexivity.
Qed.

Lemma h_cons c e s l n hl : h c (Build_reg l n (e :: rtr s) hl) = if of_conn c e then e :: h c s else h c s.
Proof. unfold h. cbn. destruct (of_conn c e); reflexivity. Qed.

Lemma find_snd_in (m : list (Z * Z)) c kv : find (fun kv => snd kv =? c) m = Some kv -> In kv m /\ snd kv = c.
Proof. intros H. apply find_some in H as [H1 H2]. apply Z.eqb_eq in H2. auto. Qed.

Lemma find_snd_none (m : list (Z * Z)) c : find (fun kv => snd kv =? c) m = None -> forall id, ~ In (id, c) m.
Proof. intros H id Hin. apply (find_none _ _ H) in Hin. cbn in Hin. rewrite Z.eqb_refl in Hin. discriminate. Qed.

Lemma rstep_inv l s : RInv s -> RInv (rstep l s).
Proof.
  intros [I1 I2 I3 I4 I5]. destruct l; cbn [rstep].
  - (* connect *)
    destruct (halted s); [constructor; assumption|].
    destruct (a_get (live s) id) as [c0|] eqn:G.
    + (* duplicate *)
      constructor; cbn [live next rtr]; try assumption.
      * intros id' c Hin. rewrite h_cons. cbn [of_conn]. destruct (I3 _ _ Hin) as [A B].
        destruct (next s =? c) eqn:E; [apply Z.eqb_eq in E; lia|]. split; [exact A|lia].
      * intros c Hc. rewrite h_cons. cbn [of_conn]. destruct (next s =? c) eqn:E.
        -- apply Z.eqb_eq in E. subst c. rewrite (I5 _ (Z.le_refl _)). apply (E_refused _ _ id). reflexivity.
        -- apply I4. exact Hc.
      * intros c Hc. rewrite h_cons. cbn [of_conn]. destruct (next s =? c) eqn:E; [apply Z.eqb_eq in E; lia|]. apply I5. lia.
    + (* accepted *)
      assert (Hnew : forall id' c, In (id', c) (a_set (live s) id (next s)) <-> In (id', c) (live s) \/ (id', c) = (id, next s))
        by (intros; apply in_a_set_new; exact G).
      constructor; cbn [live next rtr].
      * rewrite map_fst_a_set_new by exact G. apply nodup_app_single; [exact I1|apply a_get_none_notin; exact G].
      * rewrite map_snd_a_set_new by exact G. apply nodup_app_single; [exact I2|].
        intros Hin. apply in_map_iff in Hin as ([k v] & E & Hin). cbn in E. subst v. destruct (I3 _ _ Hin) as [_ B]. lia.
      * intros id' c Hin. rewrite h_cons. cbn [of_conn]. apply Hnew in Hin as [Hin|E].
        -- destruct (I3 _ _ Hin) as [A B]. destruct (next s =? c) eqn:E; [apply Z.eqb_eq in E; lia|]. split; [exact A|lia].
        -- inversion E; subst. rewrite Z.eqb_refl. rewrite (I5 _ (Z.le_refl _)). split; [reflexivity|lia].
      * intros c Hc. rewrite h_cons. cbn [of_conn]. destruct (next s =? c) eqn:E.
        -- apply Z.eqb_eq in E. subst c. exfalso. apply (Hc id). apply Hnew. right. reflexivity.
        -- apply I4. intros id' Hin. apply (Hc id'). apply Hnew. left. exact Hin.
      * intros c Hc. rewrite h_cons. cbn [of_conn]. destruct (next s =? c) eqn:E; [apply Z.eqb_eq in E; lia|]. apply I5. lia.
  - (* end *)
    destruct (a_get (live s) id) as [c0|] eqn:G; [|constructor; assumption].
    pose proof (a_get_in _ _ _ G) as Hin0.
    constructor; cbn [live next rtr].
    + apply nodup_map_del_fst. exact I1.
    + apply nodup_map_del_snd. exact I2.
    + intros id' c Hin. apply in_a_del in Hin as [Hin Hne]. rewrite h_cons. cbn [of_conn].
      destruct (c0 =? c) eqn:E.
      * apply Z.eqb_eq in E. subst c0. exfalso.
        (* two ids with the same connection number *)
        assert (X : id = id').
        { clear - I2 Hin0 Hin. induction (live s) as [|[k v] m IH]; [contradiction|]. cbn in I2. inversion I2; subst.
          destruct Hin0 as [A|A]; destruct Hin as [B|B].
          - congruence.
          - inversion A; subst. exfalso. apply H1. change c with (snd (id', c)). apply in_map. exact B.
          - inversion B; subst. exfalso. apply H1. change c with (snd (id, c)). apply in_map. exact A.
          - apply IH; assumption. }
        congruence.
      * exact (I3 _ _ Hin).
    + intros c Hc. rewrite h_cons. cbn [of_conn]. destruct (c0 =? c) eqn:E.
      * apply Z.eqb_eq in E. subst c0. destruct (I3 _ _ Hin0) as [A _]. rewrite A. apply (E_done _ _ id). reflexivity.
      * apply I4. intros id' Hin. apply (Hc id'). apply in_a_del. split; [exact Hin|].
        intros ->. apply Z.eqb_neq in E. apply E. exact (unique_live s id c0 c I1 Hin0 Hin).
    + intros c Hc. rewrite h_cons. cbn [of_conn]. destruct (c0 =? c) eqn:E.
      * apply Z.eqb_eq in E. subst c0. destruct (I3 _ _ Hin0). lia.
      * apply I5. exact Hc.
  - (* write *)
    constructor; cbn [live next rtr]; assumption.
  - (* stop *)
    constructor; cbn [live next rtr].
    + constructor.
    + constructor.
    + intros id c [].
    + intros c _. unfold h. cbn [rtr]. rewrite filter_app. rewrite (filter_disc_map c _ I2).
      fold (h c s). destruct (find (fun kv => snd kv =? c) (live s)) as [[k v]|] eqn:F.
      * apply find_snd_in in F as [Hin E]. cbn in E. subst v. cbn [fst]. destruct (I3 _ _ Hin) as [A _]. rewrite A.
        apply (E_done _ _ k). reflexivity.
      * cbn [app]. apply I4. exact (find_snd_none _ _ F).
    + intros c Hc. unfold h. cbn [rtr]. rewrite filter_app. rewrite (filter_disc_map c _ I2). fold (h c s).
      destruct (find (fun kv => snd kv =? c) (live s)) as [[k v]|] eqn:F.
      * apply find_snd_in in F as [Hin E]. cbn in E. subst v. destruct (I3 _ _ Hin). lia.
      * cbn [app]. apply I5. exact Hc.
Qed.

Lemma rrun_inv ls : forall s, RInv s -> RInv (rrun ls s).
Proof. induction ls as [|l ls IH]; intros s H; [exact H|]. cbn. apply IH. apply rstep_inv. exact H. Qed.

(** for every sequence of connects, duplicate connects, closes, drops, StopConnection calls, writes and server stops:
    every connection (numbered by its handshake) is in exactly one of four states -- no event yet; refused as a
    duplicate (no callback); connected once and still registered under its id; connected once and disconnected once,
    in that order, with the same id *)
Theorem lifecycle : forall ls c, let s := rrun ls reg0 in
  (exists id, In (id, c) (live s) /\ h c s = [RConnected id c]) \/ ended c (h c s).
Proof.
  intros ls c s. pose proof (rrun_inv ls reg0 RInv0) as [I1 I2 I3 I4 I5]. fold s in I1, I2, I3, I4, I5.
  destruct (find (fun kv => snd kv =? c) (live s)) as [[k v]|] eqn:F.
  - apply find_snd_in in F as [Hin E]. cbn in E. subst v. left. exists k. split; [exact Hin|]. exact (proj1 (I3 _ _ Hin)).
  - right. apply I4. exact (find_snd_none _ _ F).
Qed.

(** at most one live connection per id *)
Theorem one_live_per_id : forall ls id c1 c2, let s := rrun ls reg0 in
  In (id, c1) (live s) -> In (id, c2) (live s) -> c1 = c2.
Proof. intros ls id c1 c2 s. apply unique_live. exact (ri_fst _ (rrun_inv ls reg0 RInv0)). Qed.

(** the ids the server reports as connected are exactly the connections that were accepted and have not ended *)
Theorem reported_iff_live : forall ls id c, let s := rrun ls reg0 in
  In (id, c) (live s) <-> h c s = [RConnected id c].
Proof.
  intros ls id c s. pose proof (rrun_inv ls reg0 RInv0) as [I1 I2 I3 I4 I5]. fold s in I1, I2, I3, I4, I5. split.
  - intros Hin. exact (proj1 (I3 _ _ Hin)).
  - intros Hh. destruct (find (fun kv => snd kv =? c) (live s)) as [[k v]|] eqn:F.
    + apply find_snd_in in F as [Hin E]. cbn in E. subst v. destruct (I3 _ _ Hin) as [A _]. rewrite A in Hh. inversion Hh. subst. exact Hin.
    + pose proof (I4 c (find_snd_none _ _ F)) as En. rewrite Hh in En. destruct En as [X|? X|? X]; discriminate.
Qed.
