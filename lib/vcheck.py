"""Core of /verif/bin/check.  See DESIGN.md section 3 for the flow."""
import argparse, fcntl, hashlib, json, os, re, shutil, subprocess, sys, time, glob

ROOT = os.path.dirname(os.path.dirname(os.path.abspath(__file__)))
BUILD = os.path.join(ROOT, 'build')
COQ = os.path.join(ROOT, 'coq')
TOOLS = os.path.join(ROOT, 'tools')
REPO = '/repo'
GOENV = dict(os.environ, GOFLAGS='-mod=mod', GOPROXY='off', GOSUMDB='off', GOTOOLCHAIN='local',
             CGO_ENABLED=os.environ.get('CGO_ENABLED', '0'))
TAGS = 'verif'

FORBIDDEN = r'\b(Admitted|admit|Axiom|Axioms|Parameter|Parameters|Conjecture|Conjectures|Abort All)\b|Unset\s+Guard|bypass_check|Admit\s+Obligations|-type-in-type|impredicative-set|Unset\s+Universe\s+Checking|Unset\s+Positivity'


def sh(cmd, cwd=ROOT, env=None, timeout=1800, stdin=None):
    t0 = time.time()
    try:
        p = subprocess.run(cmd, cwd=cwd, env=env or os.environ, shell=isinstance(cmd, str), stdout=subprocess.PIPE,
                           stderr=subprocess.STDOUT, timeout=timeout, input=stdin)
        return p.returncode, p.stdout.decode('utf-8', 'replace'), time.time() - t0
    except subprocess.TimeoutExpired as e:
        return 124, (e.stdout or b'').decode('utf-8', 'replace') + '\n[timeout after %ss]' % timeout, time.time() - t0


def log(msg):
    print(msg, flush=True)


# ----------------------------------------------------------------------------------------------
# build

class Build:
    def __init__(self):
        self.go_ok = False
        self.go_log = ''
        self.gen_ok = False
        self.gen_log = ''
        self.coq_failed = []      # list of .v files whose compilation failed
        self.coq_log = ''
        self.coq_ok = False
        self.model_ok = False
        self.model_log = ''
        self.forbidden = []


def write_if_changed(path, data):
    try:
        if open(path).read() == data:
            return False
    except OSError:
        pass
    os.makedirs(os.path.dirname(path), exist_ok=True)
    with open(path, 'w') as f:
        f.write(data)
    return True


def tree_hash(paths):
    h = hashlib.sha256()
    for p in sorted(paths):
        h.update(p.encode())
        try:
            h.update(open(p, 'rb').read())
        except OSError:
            h.update(b'<missing>')
    return h.hexdigest()


def coq_sources():
    files = []
    for line in open(os.path.join(COQ, '_CoqProject')):
        line = line.strip()
        if line.endswith('.v'):
            files.append(os.path.join(COQ, line))
    return files


def build_all(need_go=True):
    os.makedirs(BUILD, exist_ok=True)
    b = Build()
    lock = open(os.path.join(BUILD, '.lock'), 'w')
    fcntl.flock(lock, fcntl.LOCK_EX)
    try:
        # 1. Go: harness + translator, always rebuilt from /repo's working tree (go's build cache keeps it cheap)
        shutil.copyfile(os.path.join(REPO, 'go.sum'), os.path.join(TOOLS, 'go.sum'))
        rc2, out2, _ = sh(['go', 'build', '-tags', TAGS, '-o', os.path.join(BUILD, 'extract'), './cmd/extract'], cwd=TOOLS, env=GOENV, timeout=900)
        b.go_log += out2
        # 2. translator -> coq/gen/*.v  (write-if-changed inside the tool)
        if rc2 == 0:
            rc, out, _ = sh([os.path.join(BUILD, 'extract'), '-repo', REPO, '-out', os.path.join(COQ, 'gen'), '-params', os.path.join(BUILD, 'params.json'), '-stubs', os.path.join(TOOLS, 'internal', 'stubs')], cwd=TOOLS, env=GOENV, timeout=600)
            b.gen_ok = rc == 0
            b.gen_log = out
        # harness (after the translator: it compiles the generated handler stubs)
        rc, out, _ = sh(['go', 'build', '-tags', TAGS, '-o', os.path.join(BUILD, 'harness'), './cmd/harness'], cwd=TOOLS, env=GOENV, timeout=900)
        b.go_log += out
        b.go_ok = (rc == 0 and rc2 == 0)
        # 3. Coq
        if not os.path.exists(os.path.join(COQ, 'Makefile')) or os.path.getmtime(os.path.join(COQ, 'Makefile')) < os.path.getmtime(os.path.join(COQ, '_CoqProject')):
            sh('coq_makefile -f _CoqProject -o Makefile', cwd=COQ)
        rc, out, _ = sh('timeout 3000 make -k -j16 2>&1', cwd=COQ, timeout=3100)
        b.coq_log = out
        b.coq_ok = rc == 0
        for m in re.finditer(r'^make.*\*\*\* \[\S*?: (\S+?\.vo)\]', out, re.M):
            b.coq_failed.append(m.group(1)[:-1])
        for m in re.finditer(r'^File "\./(\S+?\.v)", line', out, re.M):
            if m.group(1) not in b.coq_failed:
                b.coq_failed.append(m.group(1))
        # forbidden vernacular
        for f in coq_sources() + [os.path.join(COQ, 'extract', 'Extract.v')]:
            try:
                txt = open(f).read()
            except OSError:
                continue
            txt_nc = re.sub(r'\(\*.*?\*\)', '', txt, flags=re.S)
            for m in re.finditer(FORBIDDEN, txt_nc):
                b.forbidden.append('%s: %s' % (os.path.relpath(f, ROOT), m.group(0)))
        # 4. extraction + OCaml driver (only when model sources changed)
        oc = os.path.join(BUILD, 'ocaml')
        os.makedirs(oc, exist_ok=True)
        srcs = coq_sources() + [os.path.join(COQ, 'extract', 'Extract.v')] + glob.glob(os.path.join(ROOT, 'ocaml', '*.ml'))
        hsh = tree_hash(srcs)
        stamp = os.path.join(oc, '.hash')
        have = open(stamp).read() if os.path.exists(stamp) else ''
        if have != hsh or not os.path.exists(os.path.join(oc, 'model')):
            cmd = ('coqc -Q %s/theories Verif -Q %s/gen VerifGen %s/extract/Extract.v && cp %s/ocaml/*.ml . && '
                   'ocamlfind ocamlopt -w -a model.mli model.ml entries.ml driver.ml -o model.new && mv model.new model'
                   % (COQ, COQ, COQ, ROOT))
            rc, out, _ = sh(cmd, cwd=oc, timeout=1200)
            b.model_log = out
            b.model_ok = rc == 0
            if rc == 0:
                open(stamp, 'w').write(hsh)
            else:
                try:
                    os.remove(stamp)
                except OSError:
                    pass
        else:
            b.model_ok = True
    finally:
        fcntl.flock(lock, fcntl.LOCK_UN)
        lock.close()
    return b


# ----------------------------------------------------------------------------------------------
# property table

from propdef import Prop  # noqa: E402

COMMON_TRUSTED = [
    'Coq 8.16.1 kernel and vm_compute (no native_compute)',
    'hand-written Gallina model tied to /repo by the differential correspondence run of this check',
    'extraction with ExtrOcamlBasic only (no Extract Constant), OCaml 4.13.1, ocaml/driver.ml (I/O only)',
    'Go harness tools/cmd/harness (encoding of cases, in-process ws doubles, projections), Go 1.23 toolchain',
]

from props_table import PROPS  # noqa: E402

RT_ENTRIES = {'c08rt', 'c11rt'}     # entries whose input is a measured wall-clock trace


# ----------------------------------------------------------------------------------------------
# proof obligations

def theorems_in(path):
    try:
        txt = open(path).read()
    except OSError:
        return []
    txt = re.sub(r'\(\*.*?\*\)', '', txt, flags=re.S)
    return re.findall(r'^\s*(?:Theorem|Corollary)\s+([A-Za-z0-9_\']+)', txt, re.M)


def check_props_file(prop, b):
    """Compile Props/Cxx.v on its own (captures Print Assumptions)."""
    path = os.path.join(COQ, prop.props_file)
    names = theorems_in(path)
    res = {'theorems': names, 'compiled': False, 'assumptions': {}, 'log': ''}
    if not names:
        res['log'] = 'no theorems found in ' + prop.props_file
        return res
    rc, out, dt = sh('timeout 900 coqc -Q theories Verif -Q gen VerifGen %s 2>&1' % prop.props_file, cwd=COQ, timeout=1000)
    res['log'] = out[-6000:]
    res['compiled'] = rc == 0
    # Print Assumptions blocks: "Closed under the global context" or "Axioms:\n name : type ..."
    blocks = re.split(r'(?=^Closed under the global context|^Axioms:)', out, flags=re.M)
    blocks = [x for x in blocks if x.startswith('Closed under') or x.startswith('Axioms:')]
    for i, n in enumerate(names):
        if i < len(blocks):
            blk = blocks[i].strip()
            if blk.startswith('Closed under'):
                res['assumptions'][n] = 'Closed under the global context'
            else:
                res['assumptions'][n] = ' '.join(blk.split())[:600]
    return res


# ----------------------------------------------------------------------------------------------
# correspondence

def read_lines(p):
    with open(p) as f:
        return f.read().split('\n')[:-1]


def run_model(entry, cases_path, out_path, timeout=1800):
    rc, out, dt = sh('ulimit -s unlimited 2>/dev/null; %s %s %s > %s' % (os.path.join(BUILD, 'ocaml', 'model'), entry, cases_path, out_path), timeout=timeout)
    return rc == 0, out


def correspondence(prop, run_dir, b):
    """returns dict with counts, mismatches (list of dict) and skipped"""
    res = {'cases': 0, 'skipped_out_of_model': 0, 'mismatches': [], 'distinct': 0, 'samples': [], 'model_ran': True}
    distinct = set()
    for e in prop.entries:
        cin = os.path.join(run_dir, e + '.cases.in')
        iout = os.path.join(run_dir, e + '.impl.out')
        mout = os.path.join(run_dir, e + '.model.out')
        if not os.path.exists(cin):
            res['mismatches'].append({'entry': e, 'input': [], 'detail': 'harness produced no cases for entry ' + e})
            continue
        ok, out = run_model(e, cin, mout)
        if not ok:
            res['model_ran'] = False
            res['mismatches'].append({'entry': e, 'input': [], 'detail': 'model driver failed: ' + out[-400:]})
            continue
        ins, impls, mods = read_lines(cin), read_lines(iout), read_lines(mout)
        if not (len(ins) == len(impls) == len(mods)):
            res['mismatches'].append({'entry': e, 'input': [], 'detail': 'line count differs: %d inputs, %d impl, %d model' % (len(ins), len(impls), len(mods))})
            continue
        for i, (ci, im, mo) in enumerate(zip(ins, impls, mods)):
            res['cases'] += 1
            inp = ci.split('#')[0].strip()
            if mo.strip() == '-99':
                res['skipped_out_of_model'] += 1
                continue
            triv = len(inp.split()) <= 3
            if not triv:
                distinct.add(e + ':' + inp)
            if im.strip() != mo.strip():
                res['mismatches'].append({'entry': e, 'line': i + 1, 'input': [int(x) for x in inp.split()],
                                          'comment': ci.split('#', 1)[1].strip() if '#' in ci else '',
                                          'impl': im.strip(), 'model': mo.strip()})
            if len(res['samples']) < 4 and (i % max(1, len(ins) // 4) == 0):
                res['samples'].append({'entry': e, 'case': ci[:300], 'impl': im[:200], 'model': mo[:200]})
    res['distinct'] = len(distinct)
    return res


def run_monitor_entry(entry, cases):
    """cases: list of (input ints, observed ints). Returns list of verdicts (1 ok, 0 violated, 2 undetermined) or None."""
    ents = open(os.path.join(ROOT, 'ocaml', 'entries.ml')).read()
    if '"%s_mon"' % entry not in ents:
        return None
    tmp = os.path.join(BUILD, 'run', entry + '.mon.in')
    with open(tmp, 'w') as f:
        for inp, obs in cases:
            f.write(' '.join(map(str, [len(inp)] + inp + obs)) + '\n')
    outp = tmp[:-3] + '.out'
    ok, out = run_model(entry + '_mon', tmp, outp)
    if not ok:
        return None
    v = []
    for l in read_lines(outp):
        l = l.strip()
        v.append(int(l.split()[0]) if l else 2)
    return v


# ----------------------------------------------------------------------------------------------
# known findings

def load_known():
    p = os.path.join(ROOT, 'known_findings.json')
    if not os.path.exists(p):
        return []
    return json.load(open(p))['findings']


def match_known(fail, known, pid, mismatch_keys=frozenset()):
    """fail: dict with kind/detail/input/comment. returns finding or None"""
    for k in known:
        if k.get('status') != 'open' or pid not in k.get('properties', [k.get('property')]):
            continue
        m = k.get('match', {})
        if 'kind' in m and fail.get('kind') not in (m['kind'] if isinstance(m['kind'], list) else [m['kind']]):
            continue
        text = ' '.join(str(fail.get(x, '')) for x in ('detail', 'comment', 'impl', 'model'))
        if 'regex' in m and not re.search(m['regex'], text):
            continue
        if 'entry' in m and fail.get('entry') != m['entry']:
            continue
        if m.get('model_agrees') and (fail.get('entry'), tuple(fail.get('input') or [])) in mismatch_keys:
            continue   # the faithful model does not exhibit it on this input: not the recorded finding
        return k
    return None


# ----------------------------------------------------------------------------------------------

def write_evidence(prop, tier, seed, cov, assumptions, wall, violations):
    ev = {'property_id': prop.id, 'tier': tier, 'seed': seed, 'level': 'proof', 'coverage': cov,
          'assumptions': assumptions, 'wall_s': round(wall, 2), 'violations': violations}
    os.makedirs(os.path.join(ROOT, 'evidence'), exist_ok=True)
    with open(os.path.join(ROOT, 'evidence', prop.id + '.json'), 'w') as f:
        json.dump(ev, f, indent=1, sort_keys=True)


def write_replay(prop, seed, kind, items, extra=None):
    d = os.path.join(BUILD, 'replay')
    os.makedirs(d, exist_ok=True)
    path = os.path.join(d, '%s-%s.json' % (prop.id, kind))
    obj = {'property': prop.id, 'kind': kind, 'seed': seed, 'cases': items[:50],
           'how_to_run': 'bin/check %s --replay %s' % (prop.id, path)}
    if extra:
        obj.update(extra)
    with open(path, 'w') as f:
        json.dump(obj, f, indent=1)
    return path


def do_replay(prop, path):
    obj = json.load(open(path))
    b = build_all()
    tmp = os.path.join(BUILD, 'run', prop.id + '.replay.in')
    os.makedirs(os.path.dirname(tmp), exist_ok=True)
    n = 0
    with open(tmp, 'w') as f:
        for c in obj.get('cases', []):
            if c.get('input'):
                f.write('%s: %s\n' % (c.get('entry', prop.entries[0]), ' '.join(map(str, c['input']))))
                n += 1
    if obj.get('kind') == 'no-failing-input-found' or n == 0:
        log('replay file names no failing input: ' + json.dumps(obj.get('broken', obj.get('cases', []))[:3])[:2000])
        return 0
    foreign = sorted(set(c.get('entry') for c in obj.get('cases', []) if c.get('input') and c.get('entry') and c.get('entry') not in prop.entries))
    hname = foreign[0] if foreign else prop.harness      # scenario lanes live in another harness (e.g. c19)
    rc, out, _ = sh([os.path.join(BUILD, 'harness'), hname, '-replay', tmp], timeout=600)
    impl = out.strip().split('\n')
    i = 0
    for c in obj.get('cases', []):
        if not c.get('input'):
            continue
        e = c.get('entry', prop.entries[0])
        one = os.path.join(BUILD, 'run', 'one.in')
        open(one, 'w').write(' '.join(map(str, c['input'])) + '\n')
        if e in prop.entries:
            ok, _ = run_model(e, one, one + '.out')
            mo = open(one + '.out').read().strip() if ok else '?'
        else:
            mo = '(monitor scenario: expected outcome 1 ...)'
        log('case %s %s\n  input : %s\n  impl  : %s\n  model : %s\n  note  : %s' % (
            e, c.get('comment', ''), c['input'], impl[i] if i < len(impl) else '?', mo, c.get('detail', c.get('kind', ''))))
        i += 1
    return 0


def run_check(pid, tier, seed):
    t0 = time.time()
    prop = PROPS[pid]
    b = build_all()
    run_dir = os.path.join(BUILD, 'run')
    os.makedirs(run_dir, exist_ok=True)
    for f in glob.glob(os.path.join(run_dir, '*')):
        for e in set(prop.entries + ([prop.harness] if prop.harness else [])):
            if os.path.basename(f).startswith(e + '.') and os.path.exists(f):
                os.remove(f)
    known = load_known()
    violations = []     # concrete failing inputs (dicts)
    broken = []         # proof obligations / correspondences that no longer check (strings)
    known_hits = {}

    # ---- proofs
    pres = check_props_file(prop, b)
    obligations = len(pres['theorems']) + 1     # +1: forbidden-vernacular scan
    discharged = 0
    if pres['compiled']:
        discharged += len(pres['theorems'])
    else:
        first_err = ''
        m = re.search(r'File "([^"]+)", line (\d+)[^\n]*\n(?:.*\n)*?Error:([^\n]*(?:\n[^\n]*){0,4})', (b.coq_log if b.coq_failed else '') + '\n' + pres['log'])
        if m:
            first_err = '%s:%s %s' % (m.group(1), m.group(2), ' '.join(m.group(3).split())[:300])
        broken.append('proof: %s does not compile (%s); failed files: %s' % (prop.props_file, first_err, ', '.join(b.coq_failed) or '-'))
    if not b.forbidden:
        discharged += 1
    else:
        broken.append('forbidden vernacular: ' + '; '.join(b.forbidden[:5]))
    if not b.go_ok:
        broken.append('harness/translator does not build against /repo: ' + b.go_log[-500:])
    if not b.gen_ok and b.go_ok:
        broken.append('translator failed: ' + b.gen_log[-500:])
    if not b.model_ok:
        broken.append('model extraction / OCaml build failed: ' + b.model_log[-500:])

    # ---- property-specific extra obligations (generated tables etc.)
    extra_cov = {}
    if prop.extra:
        ex = prop.extra(prop, b, tier, seed)
        obligations += ex.get('obligations', 0)
        discharged += ex.get('discharged', 0)
        for v_ in ex.get('violations', []):
            k_ = match_known(v_, known, pid)
            if k_:
                known_hits.setdefault(k_['id'], []).append(v_)
            else:
                violations.append(v_)
        broken += ex.get('broken', [])
        extra_cov = ex.get('coverage', {})

    # ---- correspondence
    other_prop_fails = []

    def explore(n, seed_, thorough):
        """run harness + model once; returns (corr, summary, monitor failures)"""
        corr = {'cases': 0, 'skipped_out_of_model': 0, 'mismatches': [], 'distinct': 0, 'samples': []}
        summary = {}
        mon_fails = []
        if not (b.go_ok and prop.harness):
            return corr, summary, mon_fails
        cmd = [os.path.join(BUILD, 'harness'), prop.harness, '-seed', str(seed_), '-n', str(n), '-out', run_dir]
        if thorough:
            cmd.append('-thorough')
        rc, out, dt = sh(cmd, timeout=prop.harness_timeout if not thorough else 6 * prop.harness_timeout, env=GOENV)
        if rc != 0:
            broken.append('harness %s exited %d: %s' % (prop.harness, rc, out[-1500:]))
        try:
            summary = json.load(open(os.path.join(run_dir, prop.harness + '.summary.json')))
        except Exception:
            summary = {}
        mp = os.path.join(run_dir, prop.harness + '.monitor.jsonl')
        if os.path.exists(mp):
            for l in read_lines(mp):
                try:
                    r = json.loads(l)
                except Exception:
                    continue
                if r.get('info'):
                    continue
                if prop.monitor_prefixes and not any(px in r.get('kind', '') for px in prop.monitor_prefixes):
                    other_prop_fails.append(r)     # belongs to another property's check, which reports it
                    continue
                mon_fails.append(r)
        if b.model_ok and rc == 0:
            corr = correspondence(prop, run_dir, b)
        return corr, summary, mon_fails

    def classify(corr, mon_fails):
        """sorts what a run found into violations / known / undecided"""
        viol, und = [], []
        mismatch_keys = frozenset((mm.get('entry'), tuple(mm.get('input') or [])) for mm in corr['mismatches'])
        for r in mon_fails:
            k = match_known(r, known, pid, mismatch_keys)
            if k:
                known_hits.setdefault(k['id'], []).append(r)
            else:
                viol.append(r)
        by_entry = {}
        for mm in corr['mismatches']:
            by_entry.setdefault(mm['entry'], []).append(mm)
        for e, mms in by_entry.items():
            cases = [(mm['input'], [int(x) for x in mm['impl'].split()]) for mm in mms if mm.get('input') and 'impl' in mm]
            verdicts = run_monitor_entry(e, cases) if cases else None
            j = 0
            for mm in mms:
                v = 2
                if mm.get('input') and 'impl' in mm:
                    if verdicts is not None and j < len(verdicts):
                        v = verdicts[j]
                    j += 1
                    if e in prop.spec_entries:
                        v = 0      # the model is the reference spec named by the property
                mm['kind'] = 'model-impl-mismatch'
                k = match_known(mm, known, pid)
                if k:
                    known_hits.setdefault(k['id'], []).append(mm)
                elif v == 0:
                    mm['kind'] = 'spec-violated' if e in prop.spec_entries else 'monitor-violated-on-mismatch'
                    viol.append(mm)
                else:
                    und.append(mm)
        return viol, und

    n = prop.quick_n if tier == 'quick' else prop.thorough_n
    corr, summary, mon_fails = explore(n, seed, tier == 'thorough')
    vanished = 0
    if corr['mismatches'] and len(corr['mismatches']) <= 8 and prop.confirm_slow and b.go_ok:
        # a disagreement on a concurrent history is only kept when it persists with every grace period stretched
        keep = []
        for mm in corr['mismatches']:
            if not mm.get('input') or 'model' not in mm or mm.get('entry') in prop.spec_entries:
                keep.append(mm)
                continue
            tmp = os.path.join(run_dir, 'confirm.in')
            open(tmp, 'w').write('%s: %s\n' % (mm['entry'], ' '.join(map(str, mm['input']))))
            rc_, out_, _ = sh([os.path.join(BUILD, 'harness'), prop.harness, '-replay', tmp, '-slow', '12'], timeout=300, env=GOENV)
            again = out_.strip().split('\n')[-1].strip() if out_.strip() else ''
            if rc_ == 0 and again == mm['model']:
                vanished += 1
            else:
                mm['impl_rerun_slow'] = again
                keep.append(mm)
        corr['mismatches'] = keep
    # measured real-time traces: a disagreement of the timing monitor is only kept when the same scenario fails again
    # in two fresh measurements (a defect in the timeout logic reproduces, a scheduling hiccup of the machine does not)
    rt = [mm for mm in corr['mismatches'] if mm.get('entry') in RT_ENTRIES and mm.get('comment')]
    if rt and b.go_ok and b.model_ok:
        cls = lambda mm: mm.get('comment', '').split('|')[0].strip()
        persistent = set(cls(mm) for mm in rt)
        for k in (1, 2):
            again = set()
            for e in sorted(set(mm['entry'] for mm in rt)):
                d2 = os.path.join(run_dir, 'rt-rerun-%d' % k)
                shutil.rmtree(d2, ignore_errors=True)
                os.makedirs(d2, exist_ok=True)
                cmd = [os.path.join(BUILD, 'harness'), e, '-seed', str(seed + 100 + k), '-n', '1', '-out', d2]
                if tier == 'thorough':
                    cmd.append('-thorough')
                sh(cmd, timeout=900, env=GOENV)
                cin, mout = os.path.join(d2, e + '.cases.in'), os.path.join(d2, e + '.model.out')
                if not os.path.exists(cin):
                    continue
                ok_, _ = run_model(e, cin, mout)
                if not ok_:
                    continue
                ins, impls, mods = read_lines(cin), read_lines(os.path.join(d2, e + '.impl.out')), read_lines(mout)
                for ci, im, mo in zip(ins, impls, mods):
                    if im.strip() != mo.strip() and '#' in ci:
                        again.add(ci.split('#', 1)[1].split('|')[0].strip())
            persistent &= again
            if not persistent:
                break
        kept = [mm for mm in corr['mismatches'] if mm.get('entry') not in RT_ENTRIES or not mm.get('comment') or cls(mm) in persistent]
        vanished += len(corr['mismatches']) - len(kept)
        corr['mismatches'] = kept
    v1, undecided = classify(corr, mon_fails)
    violations += v1
    if undecided:
        broken.append('correspondence: %d case(s) where model and implementation differ and the property monitor does not fail, e.g. %s'
                      % (len(undecided), json.dumps({k: undecided[0].get(k) for k in ('entry', 'comment', 'input', 'impl', 'model', 'detail')})[:700]))
    searched = 0
    if broken and not violations and prop.search_n and b.go_ok:
        # something no longer checks: search harder for a concrete failing input
        log('  searching for a failing input (n=%d) ...' % prop.search_n)
        corr2, _, mon2 = explore(prop.search_n, seed + 1, True)
        v2, _ = classify(corr2, mon2)
        violations += v2
        searched = corr2['cases']

    # ---- output
    for fid, hits in known_hits.items():
        k = [x for x in known if x['id'] == fid][0]
        log('KNOWN-FINDING: property=%s %s: %s (reproduced %d time(s) in this run)' % (pid, fid, k['what'], len(hits)))
    for k in known:
        if k.get('status') == 'open' and pid in k.get('properties', [k.get('property')]) and k['id'] not in known_hits:
            log('note: open finding %s of %s did not reproduce in this run' % (k['id'], pid))

    rc = 0
    replay = None
    if violations:
        replay = write_replay(prop, seed, 'failing-input', violations, {'broken': broken})
        log('VIOLATION property=%s replay=%s' % (pid, replay))
        log('  first failing case: ' + json.dumps(violations[0])[:900])
        rc = 1
    elif broken:
        replay = write_replay(prop, seed, 'no-failing-input-found', undecided, {'broken': broken})
        log('VIOLATION property=%s replay=%s no-failing-input-found' % (pid, replay))
        for x in broken[:5]:
            log('  broken: ' + x[:1200])
        rc = 1

    cov = {
        'obligations': obligations, 'discharged': discharged,
        'checker_cmd': 'make -C coq -j16 (coq_makefile, full .vo build) && coqc -Q theories Verif -Q gen VerifGen %s' % prop.props_file,
        'trusted_base': COMMON_TRUSTED + prop.trusted,
        'theorems': pres['theorems'], 'print_assumptions': pres['assumptions'],
        'evaluations': corr['cases'], 'distinct_nontrivial': corr['distinct'],
        'rule': prop.rule or 'cases generated by tools/cmd/harness (seeded); a case is counted when its encoded input has more than 3 integers and is distinct from all others of this run',
        'samples': corr['samples'] or [{'theorems': pres['theorems'][:5]}],
        'traces_validated_against_impl': corr['cases'] - corr['skipped_out_of_model'],
        'skipped_out_of_model': corr['skipped_out_of_model'],
        'model_impl_mismatches': len(corr['mismatches']),
        'monitor_failures_on_impl': len(mon_fails),
        'monitor_failures_of_other_properties': len(other_prop_fails),
        'input_distribution': summary.get('distribution', {}),
        'known_findings_reproduced': sorted(known_hits.keys()),
        'broken': broken,
        'failing_input_search_cases': searched,
        'timing_disagreements_vanished_on_slow_rerun': vanished,
    }
    cov.update(extra_cov)
    write_evidence(prop, tier, seed, cov, prop.assumptions, time.time() - t0, len(violations) + (1 if (broken and not violations) else 0))
    log('%s %s: obligations %d/%d, correspondence %d cases (%d distinct non-trivial, %d out of model), %d mismatches, %d monitor failures, %.1fs -> %s'
        % (pid, tier, discharged, obligations, corr['cases'], corr['distinct'], corr['skipped_out_of_model'], len(corr['mismatches']), len(mon_fails), time.time() - t0, 'FAIL' if rc else 'ok'))
    return rc


def main():
    ap = argparse.ArgumentParser()
    ap.add_argument('prop', nargs='?')
    ap.add_argument('--tier', default=os.environ.get('VERIF_TIER', 'quick'))
    ap.add_argument('--replay')
    ap.add_argument('--setup', action='store_true')
    a = ap.parse_args()
    seed = int(os.environ.get('VERIF_SEED', '1') or '1')
    os.chdir(ROOT)
    if a.setup:
        b = build_all()
        ok = b.go_ok and b.coq_ok and b.model_ok
        if not ok:
            log(b.go_log[-2000:] + b.gen_log[-2000:] + b.coq_log[-4000:] + b.model_log[-2000:])
        log('setup: go=%s gen=%s coq=%s model=%s' % (b.go_ok, b.gen_ok, b.coq_ok, b.model_ok))
        sys.exit(0 if ok else 1)
    if a.prop not in PROPS:
        log('unknown property ' + str(a.prop))
        sys.exit(2)
    if a.replay:
        sys.exit(do_replay(PROPS[a.prop], a.replay))
    tier = a.tier if a.tier in ('quick', 'thorough') else 'quick'
    sys.exit(run_check(a.prop, tier, seed))
