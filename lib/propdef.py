"""Property descriptor used by bin/check."""

class Prop:
    def __init__(self, pid, harness, entries, props_file, quick_n, thorough_n, trusted=None, assumptions=None,
                 rule='', design_ref='', extra=None, harness_timeout=900, spec_entries=None, search_n=None, confirm_slow=False, props_files=None, monitor_prefixes=None):
        self.id = pid
        self.harness = harness
        self.entries = entries
        self.props_file = props_file
        self.quick_n = quick_n
        self.thorough_n = thorough_n
        self.trusted = trusted or []
        self.assumptions = assumptions or []
        self.rule = rule
        self.design_ref = design_ref
        self.extra = extra
        self.harness_timeout = harness_timeout
        self.spec_entries = spec_entries or []   # entries whose model IS the property's reference spec: a mismatch is a violation
        self.confirm_slow = confirm_slow
        self.monitor_prefixes = monitor_prefixes
        self.props_files = props_files
        self.search_n = search_n                 # harness size used to search for a failing input when something broke


