"""C19: the race-detector lane and the offender report of the static lock discipline.

The harness is rebuilt with -race from the current /repo tree and runs the concurrent workloads (its own c19 scenarios
plus the concurrent lanes of C12 / C13 / C15 / C17); every report of the Go race detector in which the accessing
function of either access (first frame outside the Go runtime / standard library / third-party modules) belongs to
the library is a failing schedule of the property: the replay is the report with both stacks plus the workload,
seed and size that produced it.
"""
import glob, json, os, re, shutil, subprocess, time

ROOT = os.path.dirname(os.path.dirname(os.path.abspath(__file__)))
BUILD = os.path.join(ROOT, 'build')
COQ = os.path.join(ROOT, 'coq')
TOOLS = os.path.join(ROOT, 'tools')
LIB = 'github.com/lorenzodonini/ocpp-go/'


def _sh(cmd, cwd=ROOT, env=None, timeout=1800):
    t0 = time.time()
    try:
        p = subprocess.run(cmd, cwd=cwd, env=env, stdout=subprocess.PIPE, stderr=subprocess.STDOUT, timeout=timeout)
        return p.returncode, p.stdout.decode('utf-8', 'replace'), time.time() - t0
    except subprocess.TimeoutExpired as e:
        return 124, (e.stdout or b'').decode('utf-8', 'replace') + '\n[timeout]', time.time() - t0


def parse_reports(text):
    """-> list of dicts {accesses: [(kind, [frames])], text}"""
    out = []
    for blk in text.split('WARNING: DATA RACE')[1:]:
        blk = blk.split('==================')[0]
        accesses = []
        cur = None
        for line in blk.split('\n'):
            m = re.match(r'^(Read|Write|Previous read|Previous write|Atomic \w+|Previous atomic \w+) at 0x[0-9a-f]+ by (.*):', line)
            if m:
                cur = (m.group(1), [])
                accesses.append(cur)
                continue
            if re.match(r'^(Goroutine|Location|Mutex) ', line) or line.strip() == '' and cur is not None and False:
                cur = None
                continue
            m = re.match(r'^  (\S.*?)\(\)?$', line.rstrip())
            if m and cur is not None and not line.startswith('   '):
                cur[1].append(m.group(1).rstrip('('))
        out.append({'accesses': accesses[:2], 'text': blk.strip()[:6000]})
    return out


def owner_frame(frames):
    """first frame that is neither runtime / std library / third-party: the code that made the access"""
    for f in frames:
        if f.startswith(LIB) or f.startswith('main.') or f.startswith('verif/'):
            return f
    return frames[0] if frames else ''


def classify(rep):
    owners = [owner_frame(a[1]) for a in rep['accesses']]
    lib = [o for o in owners if o.startswith(LIB)]
    return owners, bool(lib)


def build_race_harness(goenv):
    env = dict(goenv, CGO_ENABLED='1')
    out = os.path.join(BUILD, 'harness-race')
    rc, log, dt = _sh(['go', 'build', '-race', '-tags', 'verif', '-o', out, './cmd/harness'], cwd=TOOLS, env=env, timeout=1200)
    return rc == 0, log, out


def offenders_report():
    """ask Coq which fields offend the discipline (only used when the obligation no longer checks)"""
    src = os.path.join(BUILD, 'c19_offenders.v')
    open(src, 'w').write('''From Coq Require Import String List ZArith.
Import ListNotations.
From Verif Require Import M4.Access Spec.Concurrency.
From VerifGen Require Import AccessTable.
Definition lt := filter (live config_extra) access_table.
Definition offs := Eval vm_compute in offenders lt call_edges goroutine_roots escaping_functions exemptions.
Print offs.
Definition rows := Eval vm_compute in flat_map (fun fa => map (fun r => (fst fa, a_fn r, a_kind r, a_locks r, a_pos r)) (rows_of lt (fst fa) (snd fa))) offs.
Print rows.
''')
    rc, out, _ = _sh(['coqc', '-Q', 'theories', 'Verif', '-Q', 'gen', 'VerifGen', src], cwd=COQ, timeout=300)
    return ' '.join(out.split())[:6000]


def run_lane(binary, lane, n, seed, goenv, timeout):
    logdir = os.path.join(BUILD, 'race', lane)
    shutil.rmtree(logdir, ignore_errors=True)
    os.makedirs(logdir, exist_ok=True)
    outdir = os.path.join(BUILD, 'run-race', lane)
    shutil.rmtree(outdir, ignore_errors=True)
    os.makedirs(outdir, exist_ok=True)
    env = dict(goenv, GORACE='halt_on_error=0 log_path=%s' % os.path.join(logdir, 'r'))
    rc, out, dt = _sh([binary, lane, '-seed', str(seed), '-n', str(n), '-out', outdir], env=env, timeout=timeout)
    reports = []
    for f in sorted(glob.glob(os.path.join(logdir, 'r.*'))):
        try:
            reports += parse_reports(open(f, errors='replace').read())
        except OSError:
            pass
    summary = {}
    try:
        summary = json.load(open(os.path.join(outdir, lane + '.summary.json')))
    except Exception:
        pass
    mon = []
    mp = os.path.join(outdir, lane + '.monitor.jsonl')
    if os.path.exists(mp):
        for l in open(mp):
            try:
                r = json.loads(l)
            except Exception:
                continue
            if not r.get('info'):
                mon.append(r)
    return {'lane': lane, 'rc': rc, 'wall_s': round(dt, 1), 'reports': reports, 'cases': summary.get('cases', 0),
            'distribution': summary.get('distribution', {}), 'monitor': mon, 'tail': out[-600:] if rc not in (0, 66) else ''}


QUICK_LANES = [('c19', 3), ('c15', 25), ('c13', 40), ('c17', 12), ('c12', 40)]
THOROUGH_LANES = [('c19', 24), ('c15', 200), ('c13', 300), ('c17', 60), ('c12', 400), ('m1', 120)]


def c19_extra(prop, b, tier, seed, goenv=None, static_broken=False):
    res = {'obligations': 0, 'discharged': 0, 'violations': [], 'broken': [], 'coverage': {}}
    if not b.go_ok:
        return res
    ok, log, binary = build_race_harness(goenv)
    if not ok:
        res['broken'].append('race-instrumented harness does not build: ' + log[-600:])
        return res
    lanes = THOROUGH_LANES if (tier == 'thorough' or static_broken) else QUICK_LANES
    lane_cov = []
    seen = set()
    harness_races = []
    for lane, n in lanes:
        r = run_lane(binary, lane, n, seed, goenv, timeout=3000 if tier == 'thorough' else 1200)
        nlib = 0
        for rep in r['reports']:
            owners, is_lib = classify(rep)
            key = tuple(sorted(owners))
            if not is_lib:
                harness_races.append({'lane': lane, 'owners': owners})
                continue
            nlib += 1
            if key in seen:
                continue
            seen.add(key)
            res['violations'].append({'entry': lane, 'kind': 'C19-data-race', 'input': [],
                                      'detail': 'race detector: %s / %s  (lane %s, n=%d, seed=%d)' % (owners[0] if owners else '?', owners[1] if len(owners) > 1 else '?', lane, n, seed),
                                      'comment': 'workload: build/harness-race %s -seed %d -n %d with GORACE=halt_on_error=0' % (lane, seed, n),
                                      'report': rep['text']})
        if lane == 'c19':
            for m in r['monitor']:
                if m.get('kind', '').startswith('C19-errc'):
                    res['violations'].append(m)
                elif m.get('kind') in ('C19-panic', 'C19-hang'):
                    # a crash or hang of a workload is another property's matter (C01/C07/C16) but the lane lost coverage: say so
                    res['coverage'].setdefault('workloads_not_completed', []).append({k: m.get(k) for k in ('kind', 'input', 'detail')})
        if r['rc'] not in (0, 66):
            res['broken'].append('race lane %s exited %d: %s' % (lane, r['rc'], r['tail']))
        lane_cov.append({'lane': lane, 'n': n, 'cases': r['cases'], 'wall_s': r['wall_s'], 'race_reports': len(r['reports']), 'library_races': nlib,
                         'distribution': r['distribution']})
    res['coverage']['race_lanes'] = lane_cov
    res['coverage']['race_reports_in_harness_code_only'] = harness_races[:10]
    res['coverage']['traces_validated_against_impl'] = sum(l['cases'] for l in lane_cov)
    res['coverage']['evaluations'] = sum(l['cases'] for l in lane_cov)
    if harness_races:
        res['broken'].append('race reports whose accesses are both in harness code (a defect of the harness, not of the library): %s' % json.dumps(harness_races[:3]))
    return res
