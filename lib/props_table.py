"""Per-property configuration of bin/check."""
from propdef import Prop

PROPS = {}

PROPS['C20'] = Prop(
    'C20', harness='c20', entries=['c20'], props_file='theories/Props/C20.v',
    quick_n=400, thorough_n=40000,
    trusted=['modelled, validated by the differential run, not verified: relvacode/iso8601 v1.6.0 ParseInLocation/ParseISOZone, time.Date, Time.Format for the RFC 3339 layouts, encoding/json passing the raw value bytes to UnmarshalJSON'],
    assumptions=['years 0..9999 for marshalling (Go refuses others for JSON); iso8601 inputs with year > 10^6 are outside the model (counted as skipped)',
                 'UnmarshalJSON is reached through encoding/json, which passes one complete valid JSON value'],
    rule='exhaustive byte strings of length <= 4 over an alphabet, corpus of finding witnesses, by-construction valid ISO 8601 spellings of seeded random instants (years 0..9999, offsets +-14h), single/double mutations of those, non-string JSON values, marshal + round trip under 7 layouts, all on both types packages; counted = distinct encoded inputs with more than 3 integers',
    design_ref='5 C20')

HOOK_COMMITS = []
NOT_APPLICABLE = {}
MANIFEST_TEXT = {}
MANIFEST_TEXT['C20'] = dict(
    text='Machine-checked Coq theorems about an executable model of DateTime.UnmarshalJSON / MarshalJSON (null detection exact, non-strings rejected, strings accepted iff the iso8601 parser model accepts them, no panic, calendar arithmetic exact on all of Z), for all byte strings and all instants; the model is tied to /repo on every run by differential execution of the extracted model and both types packages on >10^4 inputs (exhaustive short tokens, valid spellings with independently computed denotation, mutations, 7 layouts).',
    note='Trusted: Coq kernel + vm_compute, extraction (ExtrOcamlBasic only), the Go harness; relvacode/iso8601, time.Date/Format and encoding/json are modelled by hand and validated by the differential run, not verified. Open finding F22 (lenient third-party parser) is reported as KNOWN-FINDING.',
    technique='Coq proof over a hand-written Gallina model + differential correspondence (extracted OCaml vs Go)')

PROPS['C12'] = Prop(
    'C12', harness='c12', entries=['c12', 'c12_lin'], props_file='theories/Props/C12.v',
    quick_n=300, thorough_n=8000, spec_entries=['c12', 'c12_lin'], search_n=4000,
    trusted=['translator tools/cmd/extract/locktable.go (go/ast scan of the container methods: lock first, mode, writes)',
             'internal/callbackqueue reached through the verif-tagged re-export /repo/verifhooks'],
    assumptions=['elements / ids are opaque: modelled as integers; request id 0 stands for the empty string',
                 'linearizability of recorded concurrent histories is decided by the extracted search on histories of at most 12 operations'],
    rule='seeded random sequential operation sequences (3..37 ops) on the five real containers for capacities 0..4 plus a corpus; recorded concurrent histories (2-4 goroutines, bounded queue pre-filled to capacity-1) checked for linearizability by the extracted model; counted = distinct encoded inputs with more than 3 integers',
    design_ref='5 C12')
MANIFEST_TEXT['C12'] = dict(
    text='Coq theorems, for every capacity and every operation sequence: bounded queue never exceeds its capacity, full push is a no-op failure, push succeeds after a pop, FIFO refinement (accepted = popped ++ content as sequences), callback queue roll-back exact / panic unreachable / FIFO per id, pending-state laws; atomicity of every container method proved on the lock table regenerated from the Go AST. Tied to /repo by differential runs of the extracted models against the real structs (sequential sequences, and linearizability of recorded concurrent histories).',
    note='Trusted: Coq kernel + vm_compute, extraction, Go harness, the AST translator for the lock table. The generic step "atomic bodies => linearizable" is argued in DESIGN.md (M4) and exercised by the recorded-history search, not yet a Coq theorem. Endpoint-level "send on full queue is inert" is covered with C01.',
    technique='Coq proof (induction over operation sequences) + generated lock table + differential correspondence incl. linearizability search')

PROPS['M1C'] = Prop('M1C', harness='m1c', entries=['m1c', 'm1c_h'], props_file='theories/Props/C20.v', quick_n=300, thorough_n=5000, design_ref='scratch')
