"""Per-property configuration of bin/check."""
from propdef import Prop

PROPS = {}

PROPS['C20'] = Prop(
    'C20', harness='c20', entries=['c20'], props_file='theories/Props/C20.v',
    quick_n=400, thorough_n=40000,
    trusted=['modelled, validated by the differential run, not verified: relvacode/iso8601 v1.6.0 ParseInLocation/ParseISOZone, time.Date, Time.Format for the RFC 3339 layouts, encoding/json passing the raw value bytes to UnmarshalJSON'],
    assumptions=['years 0..9999 for marshalling (Go refuses others for JSON); iso8601 inputs with year > 10^6 are outside the model (counted as skipped)',
                 'UnmarshalJSON is reached through encoding/json, which passes one complete valid JSON value'],
    rule='exhaustive byte strings of length <= 4 over an alphabet, corpus of finding witnesses, by-construction valid ISO 8601 spellings of seeded random instants (years 0..9999, offsets +-14h), single/double mutations of those, non-string JSON values, marshal + round trip under 7 layouts, all on both types packages; counted = distinct encoded inputs with more than 3 integers',
    design_ref='5 C20')

HOOK_COMMITS = ['4bf6967', 'a86af3c', 'afb9a3f']
NOT_APPLICABLE = {}
MANIFEST_TEXT = {}
MANIFEST_TEXT['C20'] = dict(
    text='Machine-checked Coq theorems about an executable model of DateTime.UnmarshalJSON / MarshalJSON (null detection exact, non-strings rejected, strings accepted iff the iso8601 parser model accepts them, no panic, calendar arithmetic exact on all of Z), for all byte strings and all instants; the model is tied to /repo on every run by differential execution of the extracted model and both types packages on >10^4 inputs (exhaustive short tokens, valid spellings with independently computed denotation, mutations, 7 layouts).',
    note='Trusted: Coq kernel + vm_compute, extraction (ExtrOcamlBasic only), the Go harness; relvacode/iso8601, time.Date/Format and encoding/json are modelled by hand and validated by the differential run, not verified. Open finding F22 (lenient third-party parser) is reported as KNOWN-FINDING.',
    technique='Coq proof over a hand-written Gallina model + differential correspondence (extracted OCaml vs Go)')

PROPS['C12'] = Prop(
    'C12', harness='c12', entries=['c12', 'c12_lin'], props_file='theories/Props/C12.v',
    quick_n=300, thorough_n=8000, spec_entries=['c12', 'c12_lin'], search_n=4000,
    trusted=['translator tools/cmd/extract/locktable.go (go/ast scan of the container methods: lock first, mode, writes)',
             'internal/callbackqueue reached through the verif-tagged re-export /repo/verifhooks'],
    assumptions=['elements / ids are opaque: modelled as integers; request id 0 stands for the empty string',
                 'linearizability of recorded concurrent histories is decided by the extracted search on histories of at most 12 operations'],
    rule='seeded random sequential operation sequences (3..37 ops) on the five real containers for capacities 0..4 plus a corpus; recorded concurrent histories (2-4 goroutines, bounded queue pre-filled to capacity-1) checked for linearizability by the extracted model; counted = distinct encoded inputs with more than 3 integers',
    design_ref='5 C12')
MANIFEST_TEXT['C12'] = dict(
    text='Coq theorems, for every capacity and every operation sequence: bounded queue never exceeds its capacity, full push is a no-op failure, push succeeds after a pop, FIFO refinement (accepted = popped ++ content as sequences), callback queue roll-back exact / panic unreachable / FIFO per id, pending-state laws; atomicity of every container method proved on the lock table regenerated from the Go AST. Tied to /repo by differential runs of the extracted models against the real structs (sequential sequences, and linearizability of recorded concurrent histories).',
    note='Trusted: Coq kernel + vm_compute, extraction, Go harness, the AST translator for the lock table. The generic step "atomic bodies => linearizable" is argued in DESIGN.md (M4) and exercised by the recorded-history search, not yet a Coq theorem. Endpoint-level "send on full queue is inert" is covered with C01.',
    technique='Coq proof (induction over operation sequences) + generated lock table + differential correspondence incl. linearizability search')


# ---------------------------------------------------------------------------------------------
# M1: endpoint models (client + server).  One harness run ("m1": entries m1c, m1c_h, m1s) is shared.

M1_TRUSTED = ['hand-written LTS of the dispatcher / endpoint (coq/theories/M1/Client.v, Server.v): Go channels, RWMutex, timers and contexts are written into the model by hand',
              'in-process ws.Client / ws.Server doubles (tools/internal/fakews) and the goroutine-dump quiescence detector (tools/internal/sched)',
              'verif-tagged hooks ocppj/verif_hooks.go (timer expiry injection)']
M1_ASSUME = ['the correspondence run reproduces quiescent (class S0) schedules only: after every external event the pump and the callback goroutine run until nothing is enabled; theorems named _partial / _S0 carry that class as the decidable hypothesis run_ok, whose instances are evaluated for every harness history (entry m1c_h)',
             'request ids are distinct non-zero integers; payload contents are opaque',
             'ws layer delivers handler calls as the fake does (E1-E6 of DESIGN.md 4.3a)']
M1_RULE = 'corpus of finding witnesses first, then seeded random histories (4-46 events) of send (valid/invalid) / reply (matching, foreign, queued, other client) / timer expiry / write failure on-off / disconnect / reconnect / stop / start on the real ocpp1.6 and ocpp2.0.1 endpoints of both roles, queue capacities 0..10, 1-3 clients on the server; a case counts when its encoding is distinct and has more than 3 integers'

def scenario_extra(*lanes, quick=4, thorough=40):
    """real-socket / gated scenarios of tools/cmd/harness/{c19,gated}.go run as monitors of this property: every run must end with [1 ..].
    lanes: (kind, scenario number, description)"""
    def f(prop, b, tier, seed):
        import os, subprocess
        res = {'obligations': 0, 'discharged': 0, 'violations': [], 'broken': [], 'coverage': {'scenario_lanes': []}}
        if not b.go_ok:
            return res
        root = os.path.dirname(os.path.dirname(os.path.abspath(__file__)))
        n = thorough if tier == 'thorough' else quick
        for kind, scen, what in lanes:
            inp = os.path.join(root, 'build', 'run', '%s.scenario%d.in' % (prop.id, scen))
            os.makedirs(os.path.dirname(inp), exist_ok=True)
            seeds = [seed * 100 + i for i in range(n)]
            open(inp, 'w').write(''.join('c19: %d %d 0\n' % (scen, sd) for sd in seeds))
            try:
                out = subprocess.run([os.path.join(root, 'build', 'harness'), 'c19', '-replay', inp], stdout=subprocess.PIPE, stderr=subprocess.DEVNULL,
                                     timeout=180 * n).stdout.decode('utf-8', 'replace').strip().split('\n')
            except subprocess.TimeoutExpired:
                out = []
            bad = 0
            for i, sd in enumerate(seeds):
                o = out[i].strip() if i < len(out) else '?'
                if not o.startswith('1'):
                    bad += 1
                    res['violations'].append({'entry': 'c19', 'kind': kind, 'input': [scen, sd, 0], 'impl': o,
                                              'detail': '%s: outcome [%s] (0 = the property failed, -7 = the process died, -8 / -9 = calls never returned)' % (what, o)})
            res['coverage']['scenario_lanes'].append({'scenario': scen, 'runs': n, 'failed': bad, 'what': what})
        return res
    return f


def m1prop(pid, props_file, prefixes, quick=300, thorough=6000, extra=None, spec_entries=None):
    return Prop(pid, harness='m1', entries=['m1c', 'm1c_h', 'm1c_fresh', 'm1s'], spec_entries=spec_entries, props_file=props_file, quick_n=quick, thorough_n=thorough,
                trusted=M1_TRUSTED, assumptions=M1_ASSUME, rule=M1_RULE, design_ref='5 ' + pid, confirm_slow=True,
                monitor_prefixes=prefixes, search_n=3000, harness_timeout=1200, extra=extra)

PROPS['C01'] = m1prop('C01', 'theories/Props/C01.v', ['C01', 'panic', 'hang'],
                      extra=scenario_extra(('C01-accepted-request-never-sent', 28, 'gated: two clients complete a request while the server pump is busy with a third, each with a further request queued: both follow-up requests are written (none stays accepted but never sent)'),
                                            ('C01-callback-of-refused-request-fires', 38, 'central system: a request sent from the disconnect handler to the client whose session has just ended is refused and its callback never fires; after the reconnection a request is answered at its own callback'),
                                            ('C01-new-session-request-never-concluded', 30, 'gated: Stop, Start and a new request while the callback routine of the first session is still inside an application callback; the new request is concluded exactly once, at its own callback (F35)'),
                                            ('C01-conclusion-delivered-after-stop', 31, 'gated: Stop while a conclusion waits for the busy callback routine, 16 tries; nothing is delivered once Stop has returned (F36)'),
                                            ('C01-callback-registration-not-atomic', 8, 'gated: two concurrent senders on one charge point, the first held inside the request queue and then refused; its callback must never run, the other sender gets its own reply'),
                                            ('C01-stale-conclusion-after-restart', 12, 'gated: Stop overtakes a conclusion on its way to the callback routine, 12 tries; after Start the first callback gets its own reply (F32)'),
                                            ('C01-reply-racing-timeout', 22, 'gated (RequestQueue.Peek held): the reply to a request and its timeout are handled at the same time; the request is concluded exactly once, the next requests are written, answered and concluded (F9)'),
                                            ('C01-conclusions-reordered', 19, 'gated: while the callback routine is busy a response and then an error are concluded, 12 tries; each reaches its own callback (F5)')))
PROPS['C02'] = m1prop('C02', 'theories/Props/C02.v', ['C02'],
                      extra=scenario_extra(('C02-rewritten-after-malformed-answer', 33, 'the peer answers the outstanding CALL with a CALL_RESULT whose payload is unusable: the CALL is written once, neither again after its timeout when the next request follows (server) nor after a reconnection (client)'),
                                            ('C02-rewritten-after-late-session-cleanup', 34, 'gated: the application disconnect handler of an ended session returns only after the same id has reconnected and been sent a CALL: that CALL is written once and its reply is accepted'),
                                            ('C02-outstanding-written-twice', 10, 'gated: the connection drops while the dispatcher is inside ws.Client.Write (the write succeeds); after the reconnection another request is queued: still one outstanding CALL, written once'),
                                            ('C02-written-twice-after-timeout', 26, 'server: a request times out and the cancel handler sends the next one to the same client, 6 tries; it is written once (F19)'),
                                            ('C02-written-twice-by-reconnect-racing-dispatch', 21, 'gated (RequestQueue.IsEmpty held): the connection drops and comes back while the pump is about to dispatch a request; the request is written once (F16)'),
                                            ('C02-written-twice-after-restart', 11, 'gated: Stop overtakes a ready token, 12 tries; after Start the first request is written exactly once (F31)')))
PROPS['C07'] = m1prop('C07', 'theories/Props/C07.v', ['C07', 'hang', 'panic'],
                      extra=scenario_extra(('C07-application-callback-on-the-pump', 35, 'central system and CSMS: the callback of a timed-out request blocks; the exchange with another station still completes (callbacks never run on the message pump)'),
                                            ('C07-senders-vs-disconnect-deadlock', 6, 'real sockets: 4 goroutines keep sending on a charge point while the central system drops its connection 12 times; every send and the final Stop must return (F30)'),
                                            ('C07-resume-blocks-pump', 9, 'gated: a write fails and the pump sits in the application cancel callback while the connection drops and comes back; Resume must not block the pump, the endpoint keeps working'),
                                            ('C07-pause-waits-for-taken-expiry', 29, 'gated: a request times out and the connection drops while the pump is inside the cancel callback; the disconnection is processed, the reconnected endpoint sends again (F34)'),
                                            ('C07-expiries-exceed-timer-channel', 32, 'gated: the requests of 14 clients expire while the pump is held in the first cancel callback (the timer channel holds 10) and a client disconnects meanwhile: all are cancelled, the disconnection returns, a later request is served, Stop returns (F37)'),
                                            ('C07-wakeup-lost', 28, 'gated: two clients complete a request while the pump is busy with a third: both of their queued requests are written'),
                                            ('C07-new-session-never-served', 24, 'gated: immediate reconnect of a client whose disconnection the busy pump has not handled yet; its next request is written (F13)'),
                                            ('C07-reply-racing-timeout-stall', 22, 'gated (RequestQueue.Peek held): reply and timeout of one request handled at the same time; the dispatcher goes on with the next requests (F9)'),
                                            ('C07-simultaneous-timeouts-stall', 20, 'the requests of 8 clients time out at the same moment: all 8 are cancelled and the dispatcher still serves a request sent afterwards (F18)'),
                                            ('C07-server-burst-deadlock', 13, '60 concurrent server-side sends (the request channel holds 20) with a 15 ms network write: every SendRequest returns and all 60 requests are written (F3)')))
PROPS['C09'] = m1prop('C09', 'theories/Props/C09.v', ['C09'],
                      extra=scenario_extra(('C09-foreign-reply-answered', 37, 'both roles, a request outstanding: truncated and well-formed CALL_ERROR / CALL_RESULT frames carrying a foreign id arrive: nothing is written back, no handler or hook fires, the genuine reply is then accepted'),
                                            ('C09-reply-discarded-after-late-session-cleanup', 34, 'gated: slow disconnect handler of the ended session, same id reconnected: the reply to the new session CALL is accepted'),
                                            ('C09-stale-reply-accepted-after-reconnect', 7, 'bare ocppj.Server without an application disconnect handler: a session ends with a request outstanding, the same id reconnects; a late reply carrying the old id is ignored and only the genuine reply is delivered')))
PROPS['C10'] = m1prop('C10', 'theories/Props/C10.v', ['C10'],
                      extra=scenario_extra(('C10-rewritten-after-reconnect', 10, 'gated: the connection drops while the dispatcher is inside ws.Client.Write (the write succeeds); after the reconnection another request is queued: the outstanding request is not written again'),
                                            ('C10-written-while-disconnected', 14, 'the application sends a request from inside its disconnect handler (and lingers there): nothing is handed to the network until the reconnection, then the request is written once and not cancelled')))
PROPS['C11'] = Prop('C11', harness='c11', entries=['c11rt', 'm1c', 'm1c_h', 'm1c_fresh', 'm1s'], props_file='theories/Props/C11.v', quick_n=300, thorough_n=6000,
                    trusted=M1_TRUSTED + ['real-time lane c11rt: wall-clock trace of writes and conclusions, judged by the Coq-proved timing monitor of C08'],
                    assumptions=M1_ASSUME, rule='real-time lane: server endpoints of both versions, a request outstanding when the session ends, the same id reconnects, a new request must get its own full timeout (2 runs per version, thorough 10); ' + M1_RULE,
                    design_ref='5 C11', confirm_slow=True, monitor_prefixes=['C11'], spec_entries=['c11rt'], search_n=3000, harness_timeout=1200,
                    extra=scenario_extra(('C11-restarted-server-loses-queues', 45, 'gated: server Stop and Start while the old message pump is still inside a cancel callback; a client of the restarted endpoint is served: request written once, reply accepted, next request written (F38)'),
                                            ('C11-late-cleanup-of-ended-session-hits-new-session', 34, 'gated: the application disconnect handler of an ended session returns only after the same id has reconnected and been sent a CALL: nothing of the new session is touched'),
                                            ('C11-request-accepted-for-ended-session', 38, 'central system: a request sent from the disconnect handler to the client whose session has just ended is refused; the next session of that id is not disturbed'),
                                            ('C11-idle-session-leaves-a-mark', 36, 'a client connects and disconnects without traffic, reconnects, gets two CALLs: the first times out normally and the second is written'),
                                            ('C11-one-callback-stalls-all-stations', 35, 'central system and CSMS: the blocked callback of one station cancelled request does not keep another station from being served'),
                                            ('C11-completion-of-one-client-swallows-another', 28, 'gated: while the pump is busy writing to client C the replies of A and B arrive, each with a further request queued: both follow-up requests are written'),
                                         ('C11-session-end-touches-another-client', 27, 'requests outstanding for clients X and Y; X\'s session ends: Y\'s request keeps its timeout and is cancelled exactly once at its deadline'),
                                         ('C11-new-session-held-by-old-timeout', 24, 'gated: a client disconnects with a request outstanding and the same id reconnects before the pump (busy writing to another client) has handled the disconnection; a request to the new session is written promptly (F13)'),
                                         ('C11-timeout-of-one-client-dispatches-for-another', 16, 'client C times out right after client A completed an exchange; the application\'s cancel handler sends a request to A: it goes to A once, nothing is written to C, nothing crashes (F1)'),
                                         ('C11-stale-pending-after-session-end', 7, 'bare ocppj.Server without an application disconnect handler: a session ends with a request outstanding, the same id reconnects, the reply to the new session\'s first request must be accepted')))
PROPS['C16'] = m1prop('C16', 'theories/Props/C16.v', ['C16', 'panic'], spec_entries=['m1c_fresh'],
                      extra=scenario_extra(('C16-restart-while-old-pump-busy', 44, 'gated: client Stop and Start while the old message pump is still inside a cancel callback; the new session request is written once and gets its own timeout (F38)'),
                                            ('C16-server-restart-while-old-pump-busy', 45, 'gated: the same on a server endpoint: the restarted endpoint serves its clients (F38)'),
                                            ('C16-ws-client-restart-not-fresh', 41, 'ws client, real sockets: four sessions on one client object alternating Start and StartWithRetries, each connects, echoes a message and stops'),
                                            ('C16-restart-while-callback-busy', 30, 'gated: Stop, Start and a new request while the callback routine of the first session is still inside an application callback; the new request is concluded at its own callback (F35)'),
                                            ('C16-callback-after-stop', 31, 'gated: Stop while the callback routine is busy and a further conclusion waits for it, 16 tries; no callback fires once Stop has returned (F36)'),
                                            ('C16-send-racing-stop', 5, 'real sockets: 4 goroutines send on a charge point while Stop is called, 40 rounds; nothing may crash or block (F10)'),
                                            ('C16-stale-ready-token-after-restart', 11, 'gated: Stop arrives while a ready token is unconsumed (pump held in the cancel callback), 12 tries; after Start the first request is written exactly once (F31)'),
                                            ('C16-stale-conclusion-after-restart', 12, 'gated: Stop arrives while a conclusion waits for the busy callback routine, 12 tries; after Start the first callback gets its own reply (F32)'),
                                            ('C16-reconnection-attempt-after-stop', 18, 'ws client, real sockets, gated through ws.SetLogger: Stop while a connection loss is being handled (forced close picked up, cleanup not yet run); after Stop has returned no dial, no connection, no reconnected callback')))

M1_NOTE = 'Trusted: Coq kernel + vm_compute, extraction (ExtrOcamlBasic only), the Go harness with its ws doubles and quiescence detector, the hand-written LTS. Interleavings finer than one handler / one pump iteration are not in this model (DESIGN.md section 8).'
MANIFEST_TEXT['C01'] = dict(
    text='Coq theorems on the endpoint LTS: for every schedule accepted = concluded ++ queued as sequences (nothing lost, nothing concluded twice); in schedule class S0 every callback receives the conclusion of its own request, no conclusion is left without callback, nothing panics, a stopped endpoint retains nothing. The model is run against the real ocpp1.6 / ocpp2.0.1 endpoints of both roles on seeded histories (extracted OCaml vs Go), and property monitors are evaluated on the implementation traces themselves.',
    note=M1_NOTE + ' Server-side exactly-once is covered by correspondence + monitors, its Coq theorems are the per-state ones of C09/C11. Two-channel reordering on the client (F5) is outside class S0.',
    technique='Coq invariant proofs over a labelled transition system + differential correspondence of quiescent histories + trace monitors')
MANIFEST_TEXT['C02'] = dict(
    text='Coq theorems (client endpoint), for EVERY schedule at the granularity of one handler / one pump iteration, no quiescence hypothesis: written = concluded ++ [outstanding] (so at most one CALL outstanding, none written twice) and written is a prefix of accepted (acceptance order); the schedule that refuted this on the unrepaired code (F16) now writes once. Server side by correspondence of the pump model and by write-order monitors on the implementation; gated scenarios force the sub-handler interleavings (drop during Write, reconnect racing the dispatch, restart with a stale ready token).',
    note=M1_NOTE, technique='Coq invariant proofs over an LTS (all schedules) + differential correspondence + trace monitors + gated interleaving scenarios')
MANIFEST_TEXT['C07'] = dict(
    text='Coq theorem (client, class S0): the pump never blocks for good (neither on readyForDispatch nor on a timer drain) in any history; every harness history ends quiescent with all API calls returned (goroutine-dump watchdog on the implementation: a blocked call or pump is a hang).',
    note=M1_NOTE + ' Partial: lock scopes around channel sends (F3, F10) and simultaneous server timeouts (F18) are finer than the model; they are described in DESIGN.md, not decided here.',
    technique='Coq invariant proof over an LTS + differential correspondence with goroutine-dump hang detection')
MANIFEST_TEXT['C09'] = dict(
    text='Coq theorems, for every state of every schedule, both roles: a CALL_RESULT / CALL_ERROR whose id is not pending on that same connection is the identity on the whole endpoint state, hence erasable from any schedule (the genuine reply is still delivered). Tied to the code by histories with foreign ids of every class (never used, concluded, queued, pending on another client) and an impl-side monitor.',
    note=M1_NOTE, technique='Coq proof (per-state no-op + erasure over schedules) + differential correspondence + trace monitor')
MANIFEST_TEXT['C10'] = dict(
    text='Coq theorems, every schedule: no CALL is handed to the network between a disconnect and the next reconnect; disconnect / reconnect leave queue and outstanding request untouched; accepted = concluded ++ queued over any number of drop/reconnect cycles; class S0: written is a prefix of accepted (dispatching resumes with the oldest unsent request).',
    note=M1_NOTE, technique='Coq invariant proofs over an LTS + differential correspondence + trace monitor')
MANIFEST_TEXT['C11'] = dict(
    text='Coq theorems, every state: a session end leaves no queue, pending id or callback of that client; a send to an unconnected client is rejected with no effect on any container or channel; replies are matched per connection. Isolation across clients is decided on the implementation by multi-client histories compared with the server model and by cross-client monitors (no write / callback for a client other than the one the event concerns).',
    note=M1_NOTE + ' The projection theorem of DESIGN.md (isolation as trace projection) is not proved; the leaked timeout context after an immediate reconnect (F13) is outside class S0.',
    technique='Coq proofs of per-state frame properties + differential correspondence of multi-client histories + trace monitors')
MANIFEST_TEXT['C16'] = dict(
    text='Coq theorems (client endpoint, class S0): after Stop has run to its end no queued call, outstanding request, callback or half-closed channel remains, no stray callback, pump not stuck; Stop/Start injected at random points of histories on all four endpoint kinds, compared with the model; ws-layer Stop is covered with C13/C17.',
    note=M1_NOTE + ' Goroutine leak and blocked synchronous callers are checked by the harness watchdog only.',
    technique='Coq invariant proofs over an LTS + differential correspondence + trace monitors')

PROPS['C08'] = Prop('C08', harness='c08', entries=['c08rt', 'm1c', 'm1c_h', 'm1c_fresh', 'm1s'], props_file='theories/Props/C08.v', quick_n=250, thorough_n=4000,
                    trusted=M1_TRUSTED + ['real-time lane: wall-clock measurements (ms) of writes and cancellations taken inside the ws doubles and the callbacks'],
                    assumptions=M1_ASSUME + ['real-time lane: a timeout earlier than 6 ms before the deadline counts as early (measurement tolerance); lateness is only checked as "concluded within the observation window (deadline + >= 60 ms)"'],
                    rule='real-time lane: 5 client + 5 server scenarios x 2 protocol versions on the real timers (timeout 160 ms, random jitter 0-24 ms): plain timeout + next request, reply late in the window, disconnect / reconnect across the deadline, answered-then-idle, staggered deadlines of two clients, session end + reconnect of the same id; the measured timed trace is the input of the Coq monitor. Virtual lane: ' + M1_RULE,
                    design_ref='5 C08', confirm_slow=True, monitor_prefixes=['C08'], spec_entries=['c08rt'], search_n=1500, harness_timeout=1500,
                    extra=scenario_extra(('C08-timeout-lost-after-restart', 44, 'gated: client Stop and Start while the old message pump is still inside a cancel callback; the request of the new session times out after its own timeout, once (F38)'),
                                            ('C08-never-times-out-after-idle-session', 36, 'a client connects and disconnects without traffic, reconnects, gets two CALLs and leaves the first unanswered: it is cancelled by its timeout, once and not early, and the second is written'),
                                            ('C08-next-request-cancelled-by-stale-timeout', 23, 'gated: the reply to a request arrives when its timeout has just expired and the pump is busy, 8 tries; the next request gets its own full timeout (F8)', ),
                                         ('C08-timeout-lost-when-another-session-ends', 27, 'requests outstanding for clients X and Y; X disconnects: Y\'s request still times out at its own deadline, exactly once'),
                                         ('C08-request-after-timeout-loses-its-timeout', 26, 'a request times out and the cancel handler sends the next one to the same client, 6 tries; it is written once and times out on its own (F19)'), quick=2, thorough=12))
MANIFEST_TEXT['C08'] = dict(
    text='Coq theorems: (a) soundness of the extracted timing monitor: an accepted timed trace has no early timeout (counted from the write, for a client from the later of write and last reconnection), no timeout after a conclusion, at most one conclusion per request; (b) per-state laws of the client timer bookkeeping: dispatch re-arms a full timeout and drops a stale unread expiry, the clock fires only at the deadline, pause parks and resume re-arms; (c) class S0: a timed-out request leaves the queue and the next is written. The monitor is run on measured traces of the real timers (time.Timer / context.WithTimeout) of all four endpoint kinds on every run; expiry is also injected in the virtual-time histories shared with C01.',
    note=M1_NOTE + ' Timer accuracy, the Go runtime and scheduling delays are outside the model; the server dispatcher\'s stale timerC token (F8) needs a race that the lanes do not force.',
    technique='Coq-proved trace monitor run on measured real-time traces + per-state timer lemmas + differential correspondence')

TRANSLATOR_TRUST = 'translator tools/cmd/extract (reflect over the real profile / feature / payload values + go/ast over the role files, RegisterValidation calls, isValid* switches and constant declarations); cross-checked dynamically by the probes of this run'
PROPS['C18'] = Prop('C18', harness='c18', entries=['c18', 'c18s'], props_file='theories/Props/C18.v', quick_n=1, thorough_n=1,
                    trusted=[TRANSLATOR_TRUST, 'committed role assignment coq/theories/Spec/Roles.v stands in for the OCPP documents'],
                    assumptions=['enum validators whose function is not a plain switch over constants are listed as not understood and only probed dynamically',
                                 'a type that exports no constant group (MessageTrigger of 1.6) has no declared set to compare with'],
                    rule='complete enumeration: every registered enum tag x every value accepted by any enum validator of the library plus non-members (case variants, trailing blank, empty) through Validate.Var on the shared validator; every feature x every role through SendRequestAsync; counted = distinct probes',
                    design_ref='5 C18', spec_entries=['c18s'])
MANIFEST_TEXT['C18'] = dict(
    text='Coq theorems over tables regenerated from the source on every run (finite sets, enumerated completely; vm_compute of boolean checkers lifted by soundness lemmas to Prop): every feature in exactly one profile per version; request / response types report the feature name; each role sends exactly its assignment and dispatches exactly what the opposite role sends, every switch arm asserting that feature\'s request type on the handler its profile check guards; every rule used on a payload field is built in or registered, and no rule name stands for two functions on the shared validator; every exported enum value is accepted and nothing else where values are exported. The same facts are probed dynamically (55k validator probes, all role x feature sends) and compared with the tables.',
    note='Trusted: Coq kernel + vm_compute; the translator (cross-checked by the dynamic probes); the committed role assignment. The 1.6 synchronous SendRequest has no allow-list by design of the library (reported as a difference, not decided).',
    technique='translator-regenerated tables + Coq proof by reflection (checker soundness lemmas + vm_compute) + exhaustive dynamic probes')

PROPS['C03'] = Prop('C03', harness='c03', entries=['c03'], props_file='theories/Props/C03.v', quick_n=1, thorough_n=1,
                    trusted=[TRANSLATOR_TRUST, 'generated handler stubs tools/internal/stubs (one recording method per handler interface method) and the schema-driven payload generator'],
                    assumptions=['network writes of replies succeed (in-process ws double); with a failing write the library makes one further attempt and gives up',
                                 'the failing rule tags of an invalid response are taken from validator.v9 (third-party) and classified by the model with the tag table regenerated from errorFromValidation'],
                    rule='enumerated, not sampled: 4 roles x every feature of the role\'s protocol version in both directions plus an unknown action x 6 handler outcomes x handler sets (all; for valid outcomes and in the thorough tier also none, random subset, one profile missing) on the real endpoints with generated stubs; counted = distinct encoded cases',
                    design_ref='5 C03', monitor_prefixes=['C03'],
                    extra=scenario_extra(('C03-no-reply-when-hook-rewrites-error', 25, 'an invalid-message hook is installed on a bare ocppj.Server / ocppj.Client and substitutes its own error (without id, with a foreign id, or nil): every rejected CALL still gets exactly one CALL_ERROR with its own id'), quick=1, thorough=3))
MANIFEST_TEXT['C03'] = dict(
    text='Coq theorems on the model of handleIncomingRequest / sendResponse / HandleFailedResponseError / errorFromValidation over the role and tag tables regenerated from the source: exactly one reply for every role table, handler subset, action and handler outcome; the arm that runs is the one of the CALL\'s action and (on the regenerated tables) asserts that feature\'s request type; reply kind / code as listed by the property; NotSupported when no handler, arm or feature. Tied to the code by the full cross product role x feature x outcome x handler set on the real endpoints (replies counted on the ws double, id and code compared, stub method and received payload compared).',
    note='Trusted: Coq kernel + vm_compute, translator, generated stubs, payload generator, harness. Concurrent CALLs from many clients are exercised in the thorough tier of C11/C01 only.',
    technique='translator-regenerated dispatch tables + Coq proof over a model of the reply logic + enumerated differential correspondence')

PROPS['C05'] = Prop('C05', harness='c05', entries=['c05v', 'c05vs', 'c05e', 'c05es', 'c05t'], props_file='theories/Props/C05.v', quick_n=1, thorough_n=1,
                    trusted=[TRANSLATOR_TRUST, 'committed constraint table coq/theories/Spec/SchemasSpec.v stands in for the OCPP documents',
                             'modelled, validated by this run, not verified: go-playground/validator v9.30 traversal and built-in rules; net/url behind the uri / url rules is known to the model on two shapes only',
                             'generated handler stubs, schema-driven payload generator and single-edit enumerator (tools/internal/stubs)'],
                    assumptions=['the receiver validates the value encoding/json decodes; that decoded value is computed with encoding/json by the harness and given to the model (the JSON layer is C04\'s subject)',
                                 'a payload some fields of which have the wrong JSON type is rejected by encoding/json before validation: the model states only the resulting code'],
                    rule='enumerated: for every request and response type of both versions a valid base payload (all optional fields with boundary lengths; mandatory fields only; thorough: random subsets, 3 seeds) and every single edit of every constrained leaf (drop / zero, length and count at bound-1 / bound / bound+1, numeric bounds, undeclared and case-changed enum value, nil / empty / duplicate array, nil pointer, pointer to zero) through the real validator (failing rule tags compared with the model) and, for requests, through the real send API of the sending role and the receive path of the receiving role (error / written / CALL_ERROR code / handler invoked); counted = distinct encoded cases',
                    design_ref='5 C05', spec_entries=['c05vs', 'c05es', 'c05t'], monitor_prefixes=['C05'], harness_timeout=1800)
MANIFEST_TEXT['C05'] = dict(
    text='Coq: the schema trees of all 412 message types regenerated from the source equal the committed constraint table; every array of constrained elements is descended into at every depth (traversal completeness, by vm_compute + forallb lifting); the tag -> error class table equals the specified one; per-rule meaning lemmas of the validator model (required, code-point length, numeric bounds, nil pointer, omitempty). The validator model is run against the real validator on every single-edit case (full list of failing rule tags compared) and against the real send / receive paths of the four endpoint kinds (send error, write, CALL_ERROR code in the connection\'s dialect, handler not invoked); the same cases are also judged by the committed table (reference answers).',
    note='Trusted: Coq kernel + vm_compute, translator, committed constraint table (derived from the pinned tree, repaired for F20 / F25; presence of zero-able mandatory scalars cannot be expressed by the library: F15, described in DESIGN.md), harness. validator.v9 and encoding/json are modelled / used, not verified.',
    technique='translator-regenerated schemas + Coq proof by reflection against a committed constraint table + validator model with enumerated differential correspondence')

PROPS['C04'] = Prop('C04', harness='c04', entries=['c04e', 'c04d', 'c04s'], props_file='theories/Props/C04.v', quick_n=1, thorough_n=1,
                    trusted=[TRANSLATOR_TRUST, 'modelled, validated by this run, not verified: encoding/json (struct rules, string escaping, number formatting, tokeniser)',
                             'schema-driven payload generator (tools/internal/stubs) with a UTF-8 pool (HTML-sensitive characters, control characters, U+2028/9, 4-byte scalars, U+FFFD)'],
                    assumptions=['integers of magnitude above 2^53 do not survive the receiver\'s detour through float64 (finding F14): generated payloads stay below',
                                 'timestamps are opaque strings here: their text is C20\'s subject',
                                 'structured interface{} payloads (DataTransfer data) are generated as strings'],
                    rule='for every request and response type of both versions: payloads generated from the schema (mandatory fields only / all fields with boundary lengths / random subsets; thorough: 6 seeds), alternating both EscapeHTML settings, through the real CreateCall / CreateCallResult + MarshalJSON on one endpoint and ParseRawJsonMessage + ParseMessage on a second one; JSON tree compared with the model\'s encode, decoded payload with the model\'s decode, string text with print_str; counted = distinct encoded cases',
                    design_ref='5 C04', monitor_prefixes=['C04'])
MANIFEST_TEXT['C04'] = dict(
    text='Coq: frames have the three OCPP-J shapes and are read back unchanged; the JSON keys of every payload struct of the current source are pairwise distinct under case folding (regenerated JSON schemas, vm_compute + forallb lifting); encode / decode model of encoding/json\'s struct rules with the round-trip theorem (decode (encode v) re-encodes to the same JSON) and the string text layer (parse (print s) = s under both escaping modes). The model is run against the real marshalling and the real receive path for every message type, and the property itself (same kind, id, action, equal payload, identical re-serialisation) is evaluated on the implementation for every generated payload.',
    note='Trusted: Coq kernel + vm_compute, translator, harness; encoding/json is modelled, not verified; float formatting of non-integers is compared at 3 decimals.',
    technique='translator-regenerated JSON schemas + Coq proofs over an encode/decode model + differential correspondence + direct round-trip monitor on the implementation')

PROPS['C06'] = Prop('C06', harness='c06', entries=['c06'], props_file='theories/Props/C06.v', quick_n=1, thorough_n=1,
                    trusted=[TRANSLATOR_TRUST, 'bytes -> JSON is encoding/json (text that is not JSON, or not an array, is dropped before the modelled logic); the decode + validation verdict of a payload is computed with the library by the harness (C04 / C05 describe it) and given to the model',
                             'generated handler stubs; in-process ws doubles; goroutine-dump quiescence detector'],
                    assumptions=['the endpoint\'s dialect is set (the four protocol constructors set it; FormatErrorType panics by design otherwise)',
                                 'an invalid-message hook is only covered by the scenario lane (hook substituting its own error), not by the model',
                                 'the crash of the server pump by valid traffic (finding F1) is outside this property\'s input space and outside class S0'],
                    rule='grammar-based malformed stream injected into the four real endpoint kinds, with and without a request outstanding: text that is not JSON, non-arrays, arrays of length 0-7, every element replaced by 18 JSON kinds (null, booleans, 0, 2.5, -0, 1e300, strings, arrays, objects, other type ids), ids of 36/37/300 characters and non-ASCII, unknown / wrong-direction / long actions, type-confused and constraint-violating payloads, replies (well-formed and malformed) for the pending id and for foreign ids, nesting 3000 and 12000 deep, 300 kB strings, out-of-range numbers, random splices; after every frame the genuine reply to the outstanding request and a fresh valid CALL must be processed normally; counted = distinct encoded cases',
                    design_ref='5 C06', monitor_prefixes=['C06'], harness_timeout=1800,
                    extra=scenario_extra(('C06-rejected-call-without-reply-under-hook', 25, 'an invalid-message hook substitutes its own error: unknown action, constraint violation and wrong JSON type are each answered by exactly one CALL_ERROR with the CALL\'s id, on both roles'), quick=1, thorough=3))
MANIFEST_TEXT['C06'] = dict(
    text='Coq theorems on a total model of Endpoint.ParseMessage + ocppMessageHandler, for every JSON array whatsoever: at most one effect (CALL_ERROR reply, completion of the outstanding request, or delivery to the request handler); the outstanding request is touched only by a well-formed reply carrying exactly its id; a CALL_ERROR is sent only with a non-empty id extracted from the frame and carries it; foreign replies cause nothing. The model is run against the four real endpoint kinds on a grammar-based malformed stream (about 1800 frames per run incl. raw garbage, deep nesting, huge strings), with a recover / process-isolation watchdog for panics and a quiescence watchdog for hangs, and a valid exchange after every frame.',
    note='Trusted: Coq kernel, translator (action tables), harness; encoding/json and the payload verdict come from the library. Panic-freedom of the Go code itself is observed (every frame of the stream), not proved: the model is total where the Go code guards each access.',
    technique='Coq proofs over a total model of the frame handling + differential correspondence on a grammar-based malformed stream + crash / hang / usability monitors')

WS_TRUST = ['modelled, exercised, not verified: gorilla/websocket (upgrade, origin check, framing, control frames), net/http, the kernel\'s TCP loopback, timers']
PROPS['C14'] = Prop('C14', harness='c14', entries=['c14'], props_file='theories/Props/C14.v', quick_n=1, thorough_n=1,
                    trusted=WS_TRUST + ['raw gorilla client used as the peer'],
                    assumptions=['protocols, credentials and ids are opaque in the model; the harness uses 3 protocol names, right / wrong / absent credentials, ids the check handler accepts / rejects',
                                 'which common sub-protocol is echoed is decided by gorilla\'s upgrader (server preference order; none is echoed when the server lists none): admission is compared, the echoed name is only checked to be requested and supported'],
                    rule='enumerated matrix on real loopback sockets: 5 supported lists x auth handler on/off x check-client handler on/off x origin policy (gorilla default, allow, deny) = 60 servers; handshakes: 13 requested lists (length 0-2 over 3 protocols) x credentials (absent, right, wrong) x id (accepted, rejected by the check handler) x Origin (absent, same, other) x id (fresh, already connected); quick: every 11th handshake of every server, thorough: all 56 160; a message is sent on every admitted connection',
                    design_ref='5 C14', monitor_prefixes=['C14'], harness_timeout=3000, spec_entries=['c14'])
MANIFEST_TEXT['C14'] = dict(
    text='Coq theorems on the admission function (the order of wsHandler): admitted iff auth, check-client, origin and sub-protocol negotiation all pass and the id is not connected; refused => no callback; negotiation characterised (requested and supported, first supported wins, fails only without a match). The function is compared with the real ws server over loopback sockets on the enumerated configuration x handshake matrix, and callbacks are counted on the server for every handshake.',
    note='Trusted: Coq kernel, extraction, harness; gorilla/websocket, net/http and the loopback stack are exercised, not verified.',
    technique='Coq proof over a pure admission function + enumerated differential correspondence on real loopback sockets')

PROPS['C13'] = Prop('C13', harness='c13', entries=['c13', 'c13b'], props_file='theories/Props/C13.v', quick_n=1, thorough_n=1,
                    trusted=WS_TRUST + ['raw gorilla clients as peers; the harness waits for quiescence (goroutine dump + grace periods) after every event and re-runs a disagreeing sequence with stretched grace periods'],
                    assumptions=['handler-atomic granularity: a handshake, a connection end and its cleanup are one step each; the order "new-client callback before the first message / before the disconnected callback of a connection that dies at once" (F21) and writers blocked on a full outQueue during cleanup (F6) are finer than the model',
                                 'only handshakes that pass auth / check / origin / negotiation are events of this model (C14 covers the others)'],
                    rule='real ws server on loopback: seeded random sequences (4-17 events over 3 ids) of connect / duplicate connect / client close frame / abrupt TCP reset (SO_LINGER 0) / StopConnection / server Write / server Stop, compared with the registry model after every event (callbacks, refusals, write results, GetChannel of every id); plus concurrent connect bursts on 2 ids judged by a monitor (one winner per id, callback counts, registry empty afterwards); quick 27 sequences + 6 bursts, thorough 400 + 120',
                    design_ref='5 C13', monitor_prefixes=['C13'], confirm_slow=True, harness_timeout=3000, spec_entries=['c13'], search_n=400,
                    extra=scenario_extra(('C13-disconnected-before-announced', 43, 'real sockets: 24 peers x 200 connections that are reset right after the handshake: for every accepted connection new-client comes before disconnected, both exactly once (F21)'),
                                            ('C13-stale-entry-replaced', 39, 'real sockets: a duplicate connection for id x is checked while the removal of the dropped first connection of x is queued behind it (the table is held by a Write blocked on a peer that does not read): at quiescence reported ids = live connections, at most one per id, callbacks pair up'),
                                            ('C13-disconnected-more-than-once', 40, 'real sockets: six concurrent StopConnection calls on one id, 12 rounds: each connection announced once, reported disconnected exactly once, not reported afterwards'),
                                            ('C13-second-live-connection-after-stopconnection', 15, 'real sockets: StopConnection on a connection whose write routine is busy (64 MiB to a peer that does not read); until its disconnected callback a second connection with the same id is refused with 1008, afterwards a new one works', ), quick=2, thorough=12))
MANIFEST_TEXT['C13'] = dict(
    text='Coq theorems on the registry LTS, for every sequence of events: at most one live connection per id; a duplicate connect is refused without callback and leaves the existing connection untouched; every connection is in exactly one lifecycle state (nothing / refused / connected once and registered / connected once then disconnected once, same id, in that order); the reported ids are exactly the live connections; Write succeeds exactly for registered ids. The model is compared with the real server over loopback sockets after every event of seeded sequences, and concurrent bursts are judged by a monitor on the implementation.',
    note='Trusted: Coq kernel, extraction, harness; gorilla/websocket, net/http, TCP loopback exercised, not verified. Partial: pump-level interleavings inside one connection (cleanup vs blocked writers, run() before the new-client handler) are below the model\'s granularity.',
    technique='Coq invariant proof over a registry LTS + differential correspondence on real loopback sockets + burst monitor')

PROPS['C15'] = Prop('C15', harness='c15', entries=['c15', 'c15c'], props_file='theories/Props/C15.v', quick_n=1, thorough_n=1,
                    trusted=WS_TRUST + ['raw gorilla client and the library client as peers; message content is a deterministic function of (writer, sequence number, size), checked byte for byte on receipt'],
                    assumptions=['the model is handler-atomic: a writer\'s enqueue, one pump delivery, the close; messages are opaque',
                                 'writers blocked on the full output queue are part of the queue in the model (they are released by the close since the repair F6)'],
                    rule='real loopback sockets, three directions (server -> raw client, library client -> server, server -> library client): sequential scenarios of 3-12 writes of boundary sizes (0, 1, 2, 125, 126, 127, 1000, 65535, 65536, 70000, 1 MiB; multi-byte UTF-8 content) with a close from either side at a random point, compared with the model (result of every Write, delivered sequence); concurrent lane: 1 / 2 / 4 / 8 writers x 12 messages, with and without a racing close (StopConnection, peer close, raw TCP close), judged by a monitor: per-writer order, exactly once, byte-for-byte content, nothing lost while open, every Write returns within 4 s, no panic',
                    design_ref='5 C15', monitor_prefixes=['C15'], confirm_slow=True, harness_timeout=3000, spec_entries=['c15'], search_n=600,
                    extra=scenario_extra(('C15-write-blocks-after-stalled-peer-kept-pinging', 42, 'real sockets: a peer stops reading but keeps pinging while the server writes more than the buffers hold; after the write timeout the disconnected callback fires, blocked writers are released with an error, later Writes fail at once and Stop returns'), quick=2, thorough=10))
MANIFEST_TEXT['C15'] = dict(
    text='Coq theorems on the connection\'s outbound path, for every schedule of writers / pump / close: delivered is a prefix of accepted (exactly once, in order), per-writer order, nothing lost while open, a write on a closed connection errors without effect. Compared with the real ws server and client over loopback sockets in three directions (boundary sizes up to 1 MiB, closes at random points); concurrent writers racing a close are judged on the implementation (order, exactly-once, content, progress of every Write, no panic).',
    note='Trusted: Coq kernel, extraction, harness; gorilla/websocket framing, the kernel and TCP are exercised, not verified. Partial: delivery itself is the network\'s; the theorems speak of the library\'s queueing discipline.',
    technique='Coq invariant proof over a queue LTS + differential correspondence on real loopback sockets + concurrency monitor')

PROPS['C17'] = Prop('C17', harness='c17', entries=['c17', 'c17k'], props_file='theories/Props/C17.v', quick_n=1, thorough_n=1,
                    trusted=WS_TRUST + ['raw gorilla server as the peer: it parks every incoming dial until the scenario decides whether it fails or succeeds, so that label sequences are reproduced exactly'],
                    assumptions=['the random part of the back-off is environment nondeterminism (range 0 in the correspondence runs)',
                                 'keep-alive: the theorems are about the deadline bookkeeping over a virtual clock; timer accuracy, gorilla, the kernel are outside the model (real-time scenarios check detection within wait + 750 ms)',
                                 'a Stop racing the instant the back-off delay elapses (both select arms ready) is not forced by the harness'],
                    rule='label sequences over {start, connection loss (TCP reset, or close frame 1000 / 1001 sent by the server), dial fails, dial succeeds, stop} on the real ws client against a raw loopback server with parked dials: a corpus (first retry succeeds, four failed retries, stopped-and-restarted client, stop during a dial that fails / succeeds, loss by a close frame 1000 / 1001 from the server) plus seeded random sequences (quick 10, thorough 150), compared with the model (handler trace, number of dials, final phase); 6 real-time keep-alive scenarios (peer stops answering pings; healthy idle connection; server side: silent client, pinging client; server with its own pings: client that never answers, client that answers) judged by a monitor',
                    design_ref='5 C17', monitor_prefixes=['C17'], confirm_slow=True, harness_timeout=3000, spec_entries=['c17'],
                    extra=scenario_extra(('C17-restarted-client-never-connects', 41, 'ws client, real sockets: four sessions on one client object alternating Start and StartWithRetries; after a Stop the next start connects again'),
                                            ('C17-reconnection-attempt-after-stop', 18, 'ws client, real sockets, gated through ws.SetLogger: Stop while a connection loss is being handled; after Stop has returned no dial, no connection, no reconnected callback')))
MANIFEST_TEXT['C17'] = dict(
    text='Coq theorems on the reconnection machine: any number of failed dials keeps the loop going; back-off doubled (plus the random range) for the first repeat attempts then constant; a restarted client has no stale abort signal (repaired F7); once idle only Start connects; Stop during a dial ends the loop whether that dial fails or succeeds (a connection established after Stop is dropped: repaired F26), and from a Stop on, until the next Start, no sequence of losses, dials and further Stops makes the client connected; keep-alive deadline bookkeeping (silent peer detected by last activity + wait, healthy peer never dropped). The machine is compared with the real client against a raw loopback server with parked dials; keep-alive runs in real time under a monitor.',
    note='Trusted: Coq kernel, extraction, harness; gorilla/websocket, timers and TCP are exercised, not verified. Partial as stated in DESIGN.md: the runtime half of the property (timers firing, the network noticing a reset) is observed, not proved.',
    technique='Coq proofs over a reconnection state machine and a timed deadline model + differential correspondence with a scripted raw server + real-time keep-alive monitor')


def _c19_extra(prop, b, tier, seed):
    import os
    import c19lane
    goenv = dict(os.environ, GOFLAGS='-mod=mod', GOPROXY='off', GOSUMDB='off', GOTOOLCHAIN='local')
    static_broken = any(('AccessCheck' in f or 'Props/C19' in f or 'LockTableCheck' in f or 'AccessTable' in f) for f in (b.coq_failed or []))
    res = c19lane.c19_extra(prop, b, tier, seed, goenv=goenv, static_broken=static_broken)
    if static_broken:
        res['broken'].append('lock discipline: ' + c19lane.offenders_report())
    return res


PROPS['C19'] = Prop('C19', harness=None, entries=[], props_file='theories/Props/C19.v', quick_n=1, thorough_n=1,
                    trusted=['translator tools/cmd/extract/access.go: go/types over internal/callbackqueue, ws, ocppj, ocpp1.6, ocpp2.0.1 (every selector that resolves to a struct field of these packages, the mutexes syntactically held there: Lock/RLock .. Unlock, deferred unlocks, entry locksets of unexported helpers as the meet over their call sites, closures, accesses through values created in the same function = construction); locks are identified by their field, not by instance',
                             'the step from "every recorded access holds the guard" to "every run-time access does" is the translator\'s; it is cross-checked on every run by the Go race detector on the concurrent workloads',
                             'Go race detector (ThreadSanitizer runtime of go1.23, CGO) and the rule that attributes a report to the library',
                             'committed list coq/theories/Spec/Concurrency.v: configuration calls made before Start; fields outside the mutex discipline with the reason (lifecycle calls, single owner goroutine, recorded finding), pinned to their recorded accesses'],
                    assumptions=['configuration calls (Set*, With*, Add* registrations, Errors()) are made before Start, as the API documents',
                                 'Start / Stop of one endpoint are not issued concurrently with each other, and Start only after the goroutines of the previous session ended (schedule class S0 of the endpoint model); the fields this concerns are listed in Spec/Concurrency.v under LIFECYCLE',
                                 'struct values copied as a whole, accesses through unsafe / reflection and the internals of gorilla/websocket, logrus and the validator are outside the table',
                                 'the race lanes sample schedules: a race that needs an interleaving they do not produce is only excluded by the static discipline'],
                    rule='race-instrumented harness (go build -race) on: c19 = full ocpp1.6 and ocpp2.0.1 stacks over loopback (3 clients x 3 sender goroutines per direction, 30 ms timeouts, forced disconnections with reconnection, Stop with traffic outstanding), ping flood during close, concurrent writers against closes from either side, Stop during a failing reconnection dial; plus the concurrent lanes of C12 (containers), C13 (registry bursts), C15 (writers), C17 (reconnection); thorough adds the endpoint histories of M1. A case is one workload run; every race report attributed to library code is a failing schedule.',
                    design_ref='5 C19', extra=_c19_extra)
MANIFEST_TEXT['C19'] = dict(
    text='Coq theorems: (1) for any number of threads and any interleaving of reader/writer-mutex operations and non-atomic accesses, a location whose every access holds its guard (exclusively for writes) is never accessed by two threads at once with one writing (invariant proof over a trace semantics of sync.RWMutex); (2) on the access table regenerated from the Go sources on every run -- every access to every struct field of internal/callbackqueue, ws, ocppj, ocpp1.6, ocpp2.0.1 with the mutexes held there -- each field is unwritten after construction and configuration, or guarded by one mutex on every access, or listed with its reason and pinned to exactly its recorded accesses; (3) the container methods take their mutex first. Tied to the code by the translator (re-run on every check) and by the Go race detector on the concurrent workloads of C12-C17 plus full-stack workloads, whose reports are the failing schedules.',
    note='Trusted: Coq kernel + vm_compute, the go/types translator (lockset analysis is syntactic and instance-insensitive), the race detector. Partial: fields written by Start/Stop are safe only under the documented lifecycle (listed in Spec/Concurrency.v); happens-before edges other than mutexes (channel hand-off, goroutine start) are not in the trace model -- the fields that rely on them are the pinned ones. Open finding F17 (error channels closed by Stop while error() may send).',
    technique='Coq invariant proof over a lock/access trace semantics + lock discipline decided by vm_compute on a table generated from the Go AST (go/types) + Go race detector on concurrent workloads')
