"""Per-property configuration of bin/check."""
from propdef import Prop

PROPS = {}

PROPS['C20'] = Prop(
    'C20', harness='c20', entries=['c20'], props_file='theories/Props/C20.v',
    quick_n=400, thorough_n=40000,
    trusted=['modelled, validated by the differential run, not verified: relvacode/iso8601 v1.6.0 ParseInLocation/ParseISOZone, time.Date, Time.Format for the RFC 3339 layouts, encoding/json passing the raw value bytes to UnmarshalJSON'],
    assumptions=['years 0..9999 for marshalling (Go refuses others for JSON); iso8601 inputs with year > 10^6 are outside the model (counted as skipped)',
                 'UnmarshalJSON is reached through encoding/json, which passes one complete valid JSON value'],
    rule='exhaustive byte strings of length <= 4 over an alphabet, corpus of finding witnesses, by-construction valid ISO 8601 spellings of seeded random instants (years 0..9999, offsets +-14h), single/double mutations of those, non-string JSON values, marshal + round trip under 7 layouts, all on both types packages; counted = distinct encoded inputs with more than 3 integers',
    design_ref='5 C20')

HOOK_COMMITS = []
NOT_APPLICABLE = {}
MANIFEST_TEXT = {}
MANIFEST_TEXT['C20'] = dict(
    text='Machine-checked Coq theorems about an executable model of DateTime.UnmarshalJSON / MarshalJSON (null detection exact, non-strings rejected, strings accepted iff the iso8601 parser model accepts them, no panic, calendar arithmetic exact on all of Z), for all byte strings and all instants; the model is tied to /repo on every run by differential execution of the extracted model and both types packages on >10^4 inputs (exhaustive short tokens, valid spellings with independently computed denotation, mutations, 7 layouts).',
    note='Trusted: Coq kernel + vm_compute, extraction (ExtrOcamlBasic only), the Go harness; relvacode/iso8601, time.Date/Format and encoding/json are modelled by hand and validated by the differential run, not verified. Open finding F22 (lenient third-party parser) is reported as KNOWN-FINDING.',
    technique='Coq proof over a hand-written Gallina model + differential correspondence (extracted OCaml vs Go)')
